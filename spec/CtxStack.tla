------------------------------ MODULE CtxStack ------------------------------
(***************************************************************************)
(* The conversion-status context of malt (property C16).                   *)
(*                                                                         *)
(* State under verification: malt/core/ag_ctx.py  stacks.control_status, a *)
(* thread-local stack of ControlStatusCtx objects whose top is what        *)
(* control_status_ctx() returns.  The module is written like the code; one *)
(* action per with-block boundary / decision step:                         *)
(*                                                                         *)
(*   EnterCtx / ExitCtx   ControlStatusCtx.__enter__ / __exit__ (append;   *)
(*                        `assert top is self`, pop)                       *)
(*   Call(t, k)           a call expression in a function body whose       *)
(*                        callee is wrapped in kind k:                     *)
(*        cvt(rec, ur)    api.convert(recursive, user_requested)(f); with   *)
(*                        lam the converted entity is a lambda that calls  *)
(*                        f (with_function_scope instead of `with`)        *)
(*        dnc             api.do_not_convert(f)                            *)
(*        uns             api.call_with_unspecified_conversion_status(f)   *)
(*        blk             a plain `with ControlStatusCtx(ENABLED):` block  *)
(*        ic(src,cbd,ur)  api.internal_convert(f, ctx, cbd, ur) where ctx  *)
(*                        is the current context ("cur"), a context that  *)
(*                        an enclosing body captured when it started and   *)
(*                        handed down ("up1": the caller's caller, "up2":  *)
(*                        one further out; an object that is on the stack  *)
(*                        *below* the current one and is entered a second  *)
(*                        time) or a fresh one of status E / D / U;        *)
(*                        resolved by IcResolve exactly as                 *)
(*                        internal_convert dispatches                      *)
(*        plain           f itself; from a converted body this is          *)
(*                        converted_call(f, fscope.callopts)               *)
(*   WEnter               the wrapper's `with <ctx>:` entry                *)
(*   WInvoke              the call inside the with-block; for cvt this is  *)
(*                        converted_call's decision: status DISABLED ->    *)
(*                        call unconverted, else convert and run the       *)
(*                        converted function                               *)
(*   BodyStart            `with FunctionScope(...)`: enters an ENABLED     *)
(*                        context iff the body is converted and the        *)
(*                        conversion was user requested                    *)
(*   Finish/BodyReturn    normal completion: FunctionScope.__exit__        *)
(*   WExit                the wrapper's with-block exit                    *)
(*   Raise                an exception raised in a body                    *)
(*   BodyUnwind/WUnwind   Python unwinding a frame: the __exit__ of every  *)
(*                        with-block of that frame runs                    *)
(*   Catch / Propagate    the caller's try/except/finally around the call  *)
(*                                                                         *)
(* Call trees are generated on the fly: a running body may call (bounded   *)
(* by MaxDepth, MaxWidth, MaxNodes), raise or finish; an arriving          *)
(* exception is caught or propagated by every ancestor.  The probes of the *)
(* harness (control_status_ctx() identity/status before, inside, after     *)
(* each call) are the events `ev`; with Record they are accumulated in     *)
(* `log` together with the call tree so that the harness can replay the    *)
(* behaviour in the real code (vf/props/c16.py).                           *)
(***************************************************************************)
EXTENDS Naturals, Sequences, FiniteSets, TLC, Json

CONSTANTS Threads,     \* set of thread numbers (1..9)
          MaxDepth,    \* nesting of calls below the driver
          MaxWidth,    \* calls made by one body
          MaxNodes,    \* calls per thread
          Kinds,       \* wrapper kinds to choose from
          NParts, Part,\* the first call of the driver is restricted to the kinds numbered Part modulo NParts
                       \* (splits an exhaustive enumeration into several TLC runs; 1, 0 = no restriction)
          Record       \* keep the call tree and the probe log (history variables)

VARIABLES stack,       \* [Threads -> Seq(ctx)]       ag_ctx.stacks.control_status of each thread
          cs,          \* [Threads -> Seq(frame)]     the Python call stack, abstracted
          exc,         \* [Threads -> BOOLEAN]        an exception is propagating
          ctr,         \* [Threads -> Nat]            context objects created by the thread
          nn,          \* [Threads -> Nat]            calls made by the thread (node numbering)
          ev,          \* last probe event
          tree, log,   \* history (Record)
          assertFailed \* the `assert _control_ctx()[-1] is self` of __exit__ failed
vars == <<stack, cs, exc, ctr, nn, ev, tree, log, assertFailed>>

(* ---- values -------------------------------------------------------------- *)
NoCtx == [id |-> 0, st |-> "-"]
DefaultCtx(t) == [id |-> 1000 * t, st |-> "U"]     \* _default_control_status_ctx(), created per thread
NewCtx(t, s)  == [id |-> 1000 * t + ctr[t] + 1, st |-> s]

KCvt(rec, ur)      == [w |-> "cvt",   rec |-> rec,   ur |-> ur,    src |-> "none", cbd |-> FALSE, lam |-> FALSE]
KCvtL(rec, ur)     == [w |-> "cvt",   rec |-> rec,   ur |-> ur,    src |-> "none", cbd |-> FALSE, lam |-> TRUE]
KDnc               == [w |-> "dnc",   rec |-> FALSE, ur |-> FALSE, src |-> "none", cbd |-> FALSE, lam |-> FALSE]
KUns               == [w |-> "uns",   rec |-> FALSE, ur |-> FALSE, src |-> "none", cbd |-> FALSE, lam |-> FALSE]
KBlk               == [w |-> "blk",   rec |-> FALSE, ur |-> FALSE, src |-> "none", cbd |-> FALSE, lam |-> FALSE]
KPlain             == [w |-> "plain", rec |-> FALSE, ur |-> FALSE, src |-> "none", cbd |-> FALSE, lam |-> FALSE]
KIc(src, cbd, ur)  == [w |-> "ic",    rec |-> TRUE,  ur |-> ur,    src |-> src,    cbd |-> cbd,   lam |-> FALSE]

KindsAll   == {KCvt(r, u) : r \in BOOLEAN, u \in BOOLEAN} \cup {KCvtL(r, u) : r \in BOOLEAN, u \in BOOLEAN}
              \cup {KDnc, KUns, KBlk, KPlain}
              \cup {KIc(s, c, u) : s \in {"cur", "up1", "up2", "E", "D", "U"}, c \in BOOLEAN, u \in BOOLEAN}
\* internal_convert ignores cbd unless the status is UNSPECIFIED and ur when it does not convert:
\* one representative per distinguishable dispatch for the exhaustive runs
KindsCore  == {KCvt(r, u) : r \in BOOLEAN, u \in BOOLEAN} \cup {KCvtL(TRUE, TRUE), KCvtL(FALSE, TRUE)}
              \cup {KDnc, KUns, KBlk, KPlain}
              \cup {KIc("cur", TRUE, TRUE), KIc("cur", FALSE, FALSE), KIc("E", FALSE, TRUE), KIc("E", FALSE, FALSE),
                    KIc("D", TRUE, TRUE), KIc("U", TRUE, TRUE), KIc("U", FALSE, TRUE)}
KindsCoreUp == KindsCore \cup {KIc("up1", TRUE, FALSE), KIc("up1", TRUE, TRUE)}
KindsSmall == {KCvt(TRUE, TRUE), KCvt(FALSE, FALSE), KCvtL(TRUE, TRUE), KDnc, KUns, KPlain, KIc("cur", TRUE, TRUE), KIc("E", FALSE, FALSE)}
KindsTiny  == {KCvt(TRUE, TRUE), KDnc, KPlain, KIc("cur", TRUE, FALSE)}
KindsTrio  == {KCvt(TRUE, TRUE), KDnc, KPlain}
\* the captured-context family: a context captured by an enclosing body (the thread default, a plain block's,
\* a user-requested function scope's, a region's) is re-entered by internal_convert below other contexts
KindsUp    == {KCvt(TRUE, TRUE), KDnc, KUns, KBlk, KIc("up1", TRUE, FALSE), KIc("up2", TRUE, TRUE)}
KindsCov   == KindsTiny \cup KindsUp
KindsTinyL == {KCvtL(TRUE, TRUE), KCvt(FALSE, TRUE), KDnc, KPlain, KIc("E", FALSE, FALSE)}

(* a number for every kind, used only to split enumerations *)
KindNo(k) == (CASE k.w = "cvt" -> 0 [] k.w = "dnc" -> 1 [] k.w = "uns" -> 2 [] k.w = "blk" -> 3 [] k.w = "plain" -> 4 [] OTHER -> 5)
             + 6 * ((IF k.rec THEN 1 ELSE 0) + 2 * (IF k.ur THEN 1 ELSE 0) + 4 * (IF k.cbd THEN 1 ELSE 0)
                    + 40 * (IF k.lam THEN 1 ELSE 0)
                    + 8 * (CASE k.src = "cur" -> 1 [] k.src = "E" -> 2 [] k.src = "D" -> 3 [] k.src = "U" -> 4 [] k.src = "up1" -> 5
                                 [] k.src = "up2" -> 6 [] OTHER -> 0))

NoKind == [w |-> "-", rec |-> FALSE, ur |-> FALSE, src |-> "none", cbd |-> FALSE, lam |-> FALSE]

Top(t) == stack[t][Len(stack[t])]

(* frames: f = "body" (a function body, driven by the harness' generic probe body) or
   "wrap" (one of malt's wrapper functions).  All frames carry the same fields. *)
Frame(f, n, w, rec, ur, conv, cctx, ph) ==
  [f |-> f, n |-> n, w |-> w, rec |-> rec, ur |-> ur, conv |-> conv, cctx |-> cctx, own |-> NoCtx,
   ph |-> ph, cur |-> NoCtx, nch |-> 0, cn |-> 0, lam |-> FALSE]

TopFrame(t) == cs[t][Len(cs[t])]
Depth(t)    == Cardinality({i \in 1..Len(cs[t]) : cs[t][i].f = "body"}) - 1
SetTop(t, fr) == [cs EXCEPT ![t] = [@ EXCEPT ![Len(@)] = fr]]
Pop(s)      == SubSeq(s, 1, Len(s) - 1)

(* `ctx = control_status_ctx()` at the start of a body, handed down to the calls below it: the context that
   was current when the body j levels outside the calling body started (its `cur`); beyond the driver it is
   the driver's.  Such an object is still on the stack (its with-block is in progress), in general not on top. *)
BodyIdx(t)     == {i \in 1..Len(cs[t]) : cs[t][i].f = "body"}
Captured(t, j) == LET up == {i \in BodyIdx(t) : Cardinality({x \in BodyIdx(t) : x > i}) = j}
                  IN IF up = {} THEN cs[t][1].cur ELSE cs[t][CHOOSE i \in up : TRUE].cur

(* ---- ControlStatusCtx.__enter__ / __exit__ -------------------------------- *)
Entered(t, c) == Append(stack[t], c)                         \* _control_ctx().append(self)
ExitOK(t, c)  == Top(t).id = c.id                            \* assert _control_ctx()[-1] is self
Exited(t)     == Pop(stack[t])                               \* _control_ctx().pop()

(* ---- history -------------------------------------------------------------- *)
Event(t, n, tag, c, conv) == [t |-> t, n |-> n, tag |-> tag, id |-> c.id, st |-> c.st, conv |-> conv]
Emit(e) == /\ ev' = e
           /\ log' = IF Record THEN [log EXCEPT ![e.t] = Append(@, <<e.n, e.tag, e.id, e.st, e.conv>>)] ELSE log
Quiet == UNCHANGED <<ev, log>>

(* ---- internal_convert(f, ctx, convert_by_default, user_requested) --------- *)
(* returns the wrapper it builds: which decorator, its options, and the context object handed to
   convert(conversion_ctx=...) *)
IcResolve(k, c) ==
  IF c.st = "E" \/ (c.st = "U" /\ k.cbd)
    THEN [w |-> "cvt", rec |-> TRUE, ur |-> k.ur, cctx |-> c, lam |-> FALSE]
  ELSE IF c.st = "D"
    THEN [w |-> "dnc", rec |-> FALSE, ur |-> FALSE, cctx |-> NoCtx, lam |-> FALSE]
    ELSE [w |-> "uns", rec |-> FALSE, ur |-> FALSE, cctx |-> NoCtx, lam |-> FALSE]

(* ---- Init ------------------------------------------------------------------ *)
Init == /\ stack = [t \in Threads |-> <<DefaultCtx(t)>>]
        /\ cs = [t \in Threads |-> <<Frame("body", 0, "plain", FALSE, FALSE, FALSE, NoCtx, "entry")>>]
        /\ exc = [t \in Threads |-> FALSE]
        /\ ctr = [t \in Threads |-> 0]
        /\ nn = [t \in Threads |-> 0]
        /\ ev = Event(0, 0, "-", NoCtx, FALSE)
        /\ tree = [t \in Threads |-> <<>>]
        /\ log = [t \in Threads |-> <<>>]
        /\ assertFailed = FALSE

Running(t, ph) == cs[t] # <<>> /\ TopFrame(t).ph = ph

(* ---- a function body starts: `with FunctionScope(name, scope, options) as fscope:` when converted *)
BodyStart(t) ==
  /\ Running(t, "entry") /\ TopFrame(t).f = "body"
  /\ LET fr == TopFrame(t)
         scoped == fr.conv /\ fr.ur                          \* FunctionScope.__enter__: if options.user_requested
         c == NewCtx(t, "E")
         st2 == IF scoped THEN Entered(t, c) ELSE stack[t]
         top2 == st2[Len(st2)]
     IN /\ stack' = [stack EXCEPT ![t] = st2]
        /\ ctr' = [ctr EXCEPT ![t] = IF scoped THEN @ + 1 ELSE @]
        /\ cs' = SetTop(t, [fr EXCEPT !.ph = "run", !.own = IF scoped THEN c ELSE NoCtx, !.cur = top2])
        /\ Emit(Event(t, fr.n, "in", top2, fr.conv))
  /\ UNCHANGED <<exc, nn, tree, assertFailed>>

(* ---- a call expression in a running body ----------------------------------- *)
Call(t, k) ==
  /\ Running(t, "run") /\ ~exc[t]
  /\ LET fr == TopFrame(t)
         n == nn[t] + 1
         fresh == k.w = "ic" /\ k.src \in {"E", "D", "U"}    \* the harness creates ControlStatusCtx(status)
         ictx == CASE k.w # "ic"    -> NoCtx
                   [] k.src = "cur" -> Top(t)                 \* control_status_ctx() at the call
                   [] k.src = "up1" -> Captured(t, 1)         \* captured further out: on the stack, not on top
                   [] k.src = "up2" -> Captured(t, 2)
                   [] OTHER         -> NewCtx(t, k.src)
         r == IF k.w = "ic" THEN IcResolve(k, ictx) ELSE [w |-> k.w, rec |-> k.rec, ur |-> k.ur, cctx |-> NoCtx, lam |-> k.lam]
         \* plain call: from a converted body converted_call(f, callopts) converts iff callopts allow
         \* (internal_convert_user_code = recursive) and the status is not DISABLED; never user requested
         pconv == fr.conv /\ fr.rec /\ Top(t).st # "D"
         callee == IF k.w = "plain"
                     THEN Frame("body", n, "plain", IF pconv THEN fr.rec ELSE FALSE, FALSE, pconv, NoCtx, "entry")
                     ELSE [Frame("wrap", n, r.w, r.rec, r.ur, FALSE, r.cctx, "enter") EXCEPT !.lam = r.lam]
     IN /\ Depth(t) < MaxDepth /\ fr.nch < MaxWidth /\ nn[t] < MaxNodes
        /\ (nn[t] = 0 => KindNo(k) % NParts = Part)
        /\ nn' = [nn EXCEPT ![t] = n]
        /\ ctr' = [ctr EXCEPT ![t] = IF fresh THEN @ + 1 ELSE @]
        /\ cs' = [cs EXCEPT ![t] = Append([@ EXCEPT ![Len(@)] = [fr EXCEPT !.ph = "wait", !.nch = @ + 1, !.cn = n]], callee)]
        /\ tree' = IF Record THEN [tree EXCEPT ![t] = Append(@, [p |-> fr.n, k |-> k, catch |-> FALSE, raises |-> FALSE])]
                   ELSE tree
        /\ Emit(Event(t, n, "pre", Top(t), fr.conv))
  /\ UNCHANGED <<stack, exc, assertFailed>>

(* ---- wrapper: `with <ctx>:` ------------------------------------------------ *)
WEnter(t) ==
  /\ Running(t, "enter") /\ TopFrame(t).f = "wrap"
  /\ LET fr == TopFrame(t)
         c == CASE fr.w = "dnc" -> NewCtx(t, "D")            \* with ControlStatusCtx(status=DISABLED)
                [] fr.w = "uns" -> NewCtx(t, "U")            \* with ControlStatusCtx(status=UNSPECIFIED)
                [] fr.w = "blk" -> NewCtx(t, "E")
                \* a converted lambda: with_function_scope -> `with FunctionScope(...)`, as BodyStart
                [] fr.w = "lam" -> IF fr.conv /\ fr.ur THEN NewCtx(t, "E") ELSE NoCtx
                [] OTHER        -> fr.cctx                   \* convert(): with conversion_ctx (NullCtx or the given object)
         new == fr.w \in {"dnc", "uns", "blk"} \/ (fr.w = "lam" /\ fr.conv /\ fr.ur)
     IN /\ stack' = [stack EXCEPT ![t] = IF c # NoCtx THEN Entered(t, c) ELSE @]
        /\ ctr' = [ctr EXCEPT ![t] = IF new THEN @ + 1 ELSE @]
        /\ cs' = SetTop(t, [fr EXCEPT !.ph = "invoke", !.own = c])
  /\ Quiet /\ UNCHANGED <<exc, nn, tree, assertFailed>>

(* ---- wrapper: the call inside the with-block -------------------------------- *)
WInvoke(t) ==
  /\ Running(t, "invoke")
  /\ LET fr == TopFrame(t)
         \* convert(): converted_call(f, args, kwargs, options=ConversionOptions(recursive, user_requested)):
         \* `if control_status_ctx().status == DISABLED: return _call_unconverted(f, ...)`, else convert
         \* the lambda `lambda n: body(n)` calls the body like any converted function calls a plain callee
         conv == CASE fr.w = "cvt" -> Top(t).st # "D"
                   [] fr.w = "lam" -> fr.conv /\ fr.rec /\ Top(t).st # "D"
                   [] OTHER        -> FALSE
         callee == IF fr.w = "cvt" /\ fr.lam
                     THEN Frame("wrap", fr.n, "lam", IF conv THEN fr.rec ELSE FALSE, IF conv THEN fr.ur ELSE FALSE, conv, NoCtx, "enter")
                     ELSE Frame("body", fr.n, fr.w, IF conv THEN fr.rec ELSE FALSE,
                                IF conv /\ fr.w = "cvt" THEN fr.ur ELSE FALSE, conv, NoCtx, "entry")
     IN cs' = [cs EXCEPT ![t] = Append([@ EXCEPT ![Len(@)] = [fr EXCEPT !.ph = "wait"]], callee)]
  /\ Quiet /\ UNCHANGED <<stack, exc, ctr, nn, tree, assertFailed>>

(* ---- a body raises ----------------------------------------------------------- *)
Raise(t) ==
  /\ Running(t, "run") /\ ~exc[t]
  /\ LET fr == TopFrame(t)
     IN /\ exc' = [exc EXCEPT ![t] = TRUE]
        /\ cs' = SetTop(t, [fr EXCEPT !.ph = "prop"])
        /\ tree' = IF Record /\ fr.n > 0 THEN [tree EXCEPT ![t][fr.n].raises = TRUE] ELSE tree
        /\ Emit(Event(t, fr.n, "raise", Top(t), fr.conv))
  /\ UNCHANGED <<stack, ctr, nn, assertFailed>>

(* ---- a body runs to its end -------------------------------------------------- *)
Finish(t) ==
  /\ Running(t, "run") /\ ~exc[t]
  /\ LET fr == TopFrame(t)
     IN /\ cs' = SetTop(t, [fr EXCEPT !.ph = "ret"])
        /\ Emit(Event(t, fr.n, "out", Top(t), fr.conv))
  /\ UNCHANGED <<stack, exc, ctr, nn, tree, assertFailed>>

(* ---- leaving a frame: every with-block of the frame runs __exit__ ------------ *)
(* (FunctionScope.__exit__ -> autograph_ctx.__exit__ ; the wrappers' with-blocks)  *)
Leave(t, returning) ==
  LET fr == TopFrame(t)
      rest == Pop(cs[t])
      ok == fr.own = NoCtx \/ ExitOK(t, fr.own)
      below == rest[Len(rest)]
      resumed == IF returning /\ ok
                   THEN [rest EXCEPT ![Len(rest)] = [below EXCEPT !.ph = IF below.f = "wrap" THEN "exit" ELSE "after"]]
                   ELSE rest
  IN /\ stack' = [stack EXCEPT ![t] = IF fr.own # NoCtx /\ ok THEN Exited(t) ELSE @]
     /\ assertFailed' = (assertFailed \/ ~ok)
     /\ exc' = [exc EXCEPT ![t] = IF ok THEN @ ELSE TRUE]      \* AssertionError out of __exit__
     /\ cs' = [cs EXCEPT ![t] = IF rest = <<>> THEN rest ELSE resumed]

BodyReturn(t) == /\ Running(t, "ret") /\ Leave(t, TRUE) /\ Quiet /\ UNCHANGED <<ctr, nn, tree>>
WExit(t)      == /\ Running(t, "exit") /\ Leave(t, TRUE) /\ Quiet /\ UNCHANGED <<ctr, nn, tree>>
BodyUnwind(t) == /\ Running(t, "prop") /\ exc[t] /\ Leave(t, FALSE) /\ Quiet /\ UNCHANGED <<ctr, nn, tree>>
WUnwind(t)    == /\ Running(t, "wait") /\ exc[t] /\ TopFrame(t).f = "wrap" /\ Leave(t, FALSE) /\ Quiet
                 /\ UNCHANGED <<ctr, nn, tree>>

(* ---- the caller's try / except / finally around the call --------------------- *)
Catch(t) ==
  /\ Running(t, "wait") /\ exc[t] /\ TopFrame(t).f = "body"
  /\ LET fr == TopFrame(t)
     IN /\ exc' = [exc EXCEPT ![t] = FALSE]
        /\ cs' = SetTop(t, [fr EXCEPT !.ph = "after"])
        /\ tree' = IF Record THEN [tree EXCEPT ![t][fr.cn].catch = TRUE] ELSE tree
        /\ Emit(Event(t, fr.cn, "caught", Top(t), fr.conv))
  /\ UNCHANGED <<stack, ctr, nn, assertFailed>>

Propagate(t) ==
  /\ Running(t, "wait") /\ exc[t] /\ TopFrame(t).f = "body"
  /\ LET fr == TopFrame(t)
     IN /\ cs' = SetTop(t, [fr EXCEPT !.ph = "prop"])
        /\ Emit(Event(t, fr.cn, "post", Top(t), fr.conv))         \* the probe in `finally:`
  /\ UNCHANGED <<stack, exc, ctr, nn, tree, assertFailed>>

After(t) ==
  /\ Running(t, "after") /\ ~exc[t]
  /\ LET fr == TopFrame(t)
     IN /\ cs' = SetTop(t, [fr EXCEPT !.ph = "run"])
        /\ Emit(Event(t, fr.cn, "post", Top(t), fr.conv))
  /\ UNCHANGED <<stack, exc, ctr, nn, tree, assertFailed>>

Silent(t) == WEnter(t) \/ WInvoke(t) \/ BodyReturn(t) \/ WExit(t) \/ BodyUnwind(t) \/ WUnwind(t)
Step(t) == \/ BodyStart(t) \/ (\E k \in Kinds : Call(t, k)) \/ Raise(t) \/ Finish(t)
           \/ Catch(t) \/ Propagate(t) \/ After(t) \/ Silent(t)
Next == \E t \in Threads : Step(t)
Spec == Init /\ [][Next]_vars

(* ==== the property, on the model ============================================= *)
(* the stack is exactly the default context plus the with-blocks in progress, in order *)
RECURSIVE Owned(_)
Owned(frames) == IF frames = <<>> THEN <<>>
                 ELSE LET h == Head(frames) IN (IF h.own # NoCtx THEN <<h.own>> ELSE <<>>) \o Owned(Tail(frames))
StackShape == \A t \in Threads : stack[t] = <<DefaultCtx(t)>> \o Owned(cs[t])

(* in a body, at its own level, the current context is the very object it was when the body started,
   after any number of calls that returned or raised *)
AtOwnLevel(t) == cs[t] # <<>> /\ TopFrame(t).f = "body" /\ TopFrame(t).ph \in {"run", "after", "ret", "prop", "wait"}
Restored == \A t \in Threads : AtOwnLevel(t) => Top(t) = TopFrame(t).cur

(* status visible inside the regions *)
RegionStatus == \A t \in Threads : AtOwnLevel(t) =>
  LET fr == TopFrame(t) IN
    /\ (fr.w = "dnc" => Top(t).st = "D")                          \* inside do_not_convert: disabled
    /\ (fr.w = "uns" => Top(t).st = "U")
    /\ (fr.w = "blk" => Top(t).st = "E")
    /\ (fr.conv /\ fr.ur => Top(t).st = "E" /\ Top(t) = fr.own)    \* user-requested converted function: enabled
    /\ (fr.w = "cvt" /\ ~fr.conv => Top(t).st = "D")               \* convert() only declines in a disabled context
    /\ (fr.conv => Top(t).st # "D")
    /\ (fr.w = "lam" => LET lf == cs[t][Len(cs[t]) - 1] IN           \* inside a user-requested converted lambda
                          (lf.conv /\ lf.ur) => (Top(t).st = "E" /\ Top(t) = lf.own))
    /\ (Len(cs[t]) = 1 => Top(t) = DefaultCtx(t))                  \* outside every region: the default, UNSPECIFIED

Quiescent == \A t \in Threads : cs[t] = <<>> => stack[t] = <<DefaultCtx(t)>>
AssertOK == ~assertFailed
TypeOK == \A t \in Threads : Len(stack[t]) >= 1 /\ stack[t][1] = DefaultCtx(t) /\ ctr[t] < 999

(* isolation: a step changes the stack of at most one thread, the one taking it *)
Changed(t) == stack'[t] # stack[t] \/ cs'[t] # cs[t] \/ exc'[t] # exc[t]
Isolation == [][\A t, u \in Threads : (Changed(t) /\ Changed(u)) => t = u]_vars

(* vacuity of the captured-context kinds: some context object is on a stack twice with another one in between
   (reporting invariant, used on a tiny instance only) *)
Split == \E t \in Threads : \E i, j \in 1..Len(stack[t]) : i + 1 < j /\ stack[t][i] = stack[t][j]
SplitReport == Split => PrintT(ToJson([split |-> TRUE]))

(* ==== expected observations for the harness (single thread, Record) ========== *)
Done == \A t \in Threads : cs[t] = <<>>
Expect == (Record /\ Done) =>
  \A t \in Threads : PrintT(ToJson([tree |-> tree[t], log |-> log[t], exc |-> exc[t]]))
=============================================================================
