------------------------------ MODULE CfgSound ------------------------------
(***************************************************************************)
(* C05 - the control-flow graph built by malt.pyct.cfg contains every      *)
(* control path that can execute.                                          *)
(*                                                                         *)
(* Monitor over MiniPy: Claims (IOEnv.CLAIM_FILE) holds, per program and   *)
(* function, the graph the *real* cfg.build produced (edges between        *)
(* MiniPy node ids, 0 = the arguments/entry node, exit and raise nodes,    *)
(* per-statement entry/exit sets).  TLC explores all executions and checks *)
(* in every step that the node just executed is a successor of the node    *)
(* executed before it in the same activation, and on termination that the  *)
(* last node is an exit (return / fall-through) or a raise node.           *)
(* Exempt, as documented by the property: steps taken while an exception   *)
(* propagates through a finally block, and control transfers caused by an  *)
(* exception that was raised implicitly (unbound read) or by a callee.     *)
(* The static clauses (mirror links, single entry, statement entry/exit    *)
(* sets agree with the node graph and lexical ownership) are evaluated     *)
(* once per program (StaticOK).                                            *)
(***************************************************************************)
EXTENDS MiniPyMon
VARIABLES lastStk,   \* per activation of the call stack: last node executed (0 = entry/arguments node)
          resync,    \* per activation: the next node is reached by an unmodelled (exempt) transfer
          bad,       \* the first distinct violation reports of this execution (MiniPyMon!Note)
          jsrc,      \* the node that initiated the most recent jump (return / break / continue), 0 = none
          jres       \* the kind of a jump that a finally block has just resumed, until the next node executes ("" = none)
mvars == <<vars, lastStk, resync, bad, jsrc, jres>>

Edges(f)  == {<<e[1], e[2]>> : e \in Range(G(f).edges)}
ExitS(f)  == Range(G(f).exit)
ErrorS(f) == Range(G(f).error)

(* ---- static clauses ------------------------------------------------------ *)
Stmts(f) == {s \in 1..NNodes : ND(s).fn = f /\ ND(s).kind \in {"if", "while", "for", "try"}}
SpecNext(f, s) == {e[2] : e \in {x \in Edges(f) : x[1] \in Own(s) /\ x[2] \notin Own(s)}}
SpecPrev(f, s) == {e[1] : e \in {x \in Edges(f) : x[1] \notin Own(s) /\ x[2] \in Own(s)}}
\* nodes of the graph reachable from the entry node 0
RECURSIVE Reach(_, _)
Reach(f, S) == LET T == S \cup {e[2] : e \in {x \in Edges(f) : x[1] \in S}} IN IF T = S THEN S ELSE Reach(f, T)
StaticBad(f) ==
  IF ~G(f).mirror THEN "mirror"
  ELSE IF ~G(f).entryok THEN "entry"
  ELSE IF \E s \in Stmts(f) : Own(s) \cap Range(G(f).nodes) # {} /\ Range(G(f).snext[s]) # SpecNext(f, s) THEN "stmt_next"
  ELSE IF \E s \in Stmts(f) : Own(s) \cap Range(G(f).nodes) # {} /\ Range(G(f).sprev[s]) # SpecPrev(f, s) THEN "stmt_prev"
  ELSE ""
StaticReport == LET fs == {f \in 1..Len(P.fns) : StaticBad(f) # ""} IN
                IF fs = {} THEN "" ELSE LET f == CHOOSE f \in fs : TRUE IN ToString(<<"static", f, StaticBad(f)>>)

MInit == Init /\ lastStk = <<0>> /\ resync = <<FALSE>> /\ bad = Reports0(StaticReport) /\ jsrc = 0 /\ jres = ""

MStep ==
  /\ Step
  /\ LET nc  == NC(ctrl)
         nc2 == NC(ctrl')
         fn  == ActFn(ctrl)
         exempt == ExcPending(ctrl)
         n   == cur'
         judged == n # 0 /\ ~exempt
         lastNow == IF judged THEN n ELSE lastStk[nc]
         edgeBad == judged /\ ~resync[nc] /\ <<lastStk[nc], n>> \notin Edges(fn)
         ended == nc2 < nc
         exitBad == /\ ended
                    /\ \/ how' = "ret" /\ ~exempt /\ lastNow \notin ExitS(fn)
                       \/ how' = "exc" /\ n # 0 /\ ND(n).kind = "raise" /\ n \notin ErrorS(fn)
         \* an exception arriving from a callee, or an implicit one, makes the next transfer unmodelled
         implicitNow == how' = "exc" /\ (n = 0 \/ ND(n).kind # "raise") /\ ~ended
         \* the jump (return / break / continue) that is waiting in the innermost finally block, "" if none: names the
         \* cause of a missing edge when the last executed node is a statement of an inner finally block
         pidx == {i \in 1..Len(ctrl) : ctrl[i].k = "finally" /\ ctrl[i].comp # NoComp}
         pend == IF pidx # {} THEN ctrl[CHOOSE i \in pidx : \A j \in pidx : i >= j].comp[1] ELSE jres
         isJump == how' \in {"ret", "brk", "cnt"}
         upd  == [lastStk EXCEPT ![nc] = lastNow]
         rs1  == [resync EXCEPT ![nc] = IF judged THEN implicitNow ELSE (@ \/ implicitNow)]
     IN
     /\ bad' = Note(bad,
               IF edgeBad THEN ToString(<<"edge", fn, lastStk[nc], n, pend, jsrc>>)
               ELSE IF exitBad THEN ToString(<<"exit", fn, lastNow, how'>>)
               ELSE "")
     /\ jsrc' = IF isJump /\ n # 0 THEN n ELSE jsrc
     /\ jres' = IF n # 0 THEN "" ELSE IF isJump THEN how' ELSE jres
     /\ lastStk' = IF nc2 > nc THEN Append(upd, 0) ELSE SubSeq(upd, 1, nc2)
     /\ resync'  = IF nc2 > nc THEN Append(rs1, FALSE)
                   ELSE IF nc2 < nc /\ how' = "exc" /\ nc2 > 0
                        THEN [SubSeq(rs1, 1, nc2) EXCEPT ![nc2] = TRUE]   \* callee raised into the caller
                        ELSE SubSeq(rs1, 1, nc2)

MSpec == MInit /\ [][MStep]_mvars
(* reporting invariant (always true): one JSON line per complete execution; bad = "" when it was clean *)
Report == (status[1] # "run") => PrintT(ToJson([pid |-> pid, dec |-> dec, inp |-> inp, bad |-> bad, log |-> log, out |-> Out, xlog |-> xlog, xnode |-> xnode, xfirst |-> xfirst, delx |-> delx, oc |-> oc, finx |-> finx, gl |-> Globals]))
=============================================================================
