----------------------------- MODULE ConvCache -----------------------------
(***************************************************************************)
(* The conversion cache of malt.pyct.transpiler.PyToPy (property C10).     *)
(*                                                                         *)
(* Written like PyToPy.transform_function: one action per shared-memory    *)
(* step of the double-checked-locking protocol.                            *)
(*                                                                         *)
(*   cache_subkey = self.get_caching_key(user_context)          Start      *)
(*   if self._cache.has(fn, cache_subkey):        HasBegin FastRead HasEnd *)
(*     factory = self._cached_factory(fn, cache_subkey)         FastGet    *)
(*   else:                                                                 *)
(*     with self._cache_lock:                                   Acquire    *)
(*       if self._cache.has(fn, cache_subkey):                  ReCheck    *)
(*         factory = self._cached_factory(fn, cache_subkey)     LockGet    *)
(*       else:                                                             *)
(*         nodes, ctx = super().transform_function(..)  TransformBegin     *)
(*             (reading / parsing the source may raise) ParseFail          *)
(*             (transform_ast may re-enter transform)   Nested             *)
(*             (and may raise)                          TransformFail      *)
(*         factory = _PythonFnFactory(..); factory.create(..)  TransformOk *)
(*         self._cache[fn][cache_subkey] = factory              Store      *)
(*                                            Release / ReleaseFail, Raise *)
(*   transformed_fn = factory.instantiate(globals_=fn.__globals__,         *)
(*       closure=fn.__closure__, defaults=fn.__defaults__, ..) Instantiate *)
(*   return transformed_fn, factory.module, factory.source_map  Return     *)
(*                                                                         *)
(* The lock-free has() is not atomic with respect to the other threads; it *)
(* is modelled as begin / one atomic read somewhere in between / end.      *)
(* The lock is a threading.RLock: owner and re-entrancy depth.  The table  *)
(* is a WeakKeyDictionary code object -> {options -> factory}: a code      *)
(* object that dies takes its bucket with it (Collect).  A thread that is  *)
(* inside a request holds the function object, hence its code object       *)
(* cannot die meanwhile.                                                   *)
(*                                                                         *)
(* Function objects are records [code, env]: several function objects      *)
(* share one code object and differ in env = (globals, closure, defaults). *)
(* The result of a request is Bind(factory, env).                          *)
(*                                                                         *)
(* An environment is an *identity*, not a value: its closure is a tuple of *)
(* cells (mutable locations) that belong to it.  cellval[e] is what the    *)
(* cells of e currently hold; distinct environments may hold equal values  *)
(* (two closures made by the same factory call with the same arguments)    *)
(* and the captured variables can be rebound at any time (Rebind: nonlocal *)
(* in a sibling closure, assignment in the enclosing scope).  Whatever a   *)
(* result reads through its closure is cellval[renv]: it has to follow the *)
(* requesting function's own variables for ever after (Follows).           *)
(*                                                                         *)
(* A code object likewise is an identity that is never reused (`used`),    *)
(* but it lives at an *address* (id()), and the address of a dead code     *)
(* object is handed to a later one by the allocator (addr, DefineFn with   *)
(* an address taken from FreeAddrs).  Nothing in the protocol may depend   *)
(* on addresses: the table is keyed by the (weakly held) object.           *)
(*                                                                         *)
(* Deliberate deviations / exclusions (all documented in notes/C10.md):    *)
(*  - a nested request made from inside transform_ast is for a key that is *)
(*    not already being converted further down the same thread's stack     *)
(*    (a transpiler that re-enters itself on the *same* function converts  *)
(*    it twice by construction, see tests/pyct/transpiler_test.py          *)
(*    test_reentrance; api.PyToPy never re-enters);                        *)
(*  - TransformOk stands for transform_ast + factory creation;             *)
(*  - Mutant is "none" in every production configuration; the other values *)
(*    exist only for the self-test that shows that each invariant can fail.*)
(***************************************************************************)
EXTENDS Naturals, FiniteSets, Sequences, TLC

CONSTANTS Threads,      \* thread ids (positive integers or model values)
          Codes,        \* universe of code-object ids (positive integers)
          Envs,         \* environment ids (positive integers)
          Opts,         \* option values (positive integers)
          InitFns,      \* function objects alive initially: set of [code, env]
          MaxReq,       \* top-level requests per thread
          MaxDepth,     \* re-entrancy depth (frames per thread)
          MaxNest,      \* nested requests in a behaviour
          MaxFail,      \* failing transforms in a behaviour
          MaxRedefine,  \* environment: redefinitions in a behaviour
          MaxCollect,   \* environment: collections in a behaviour
          Vals,         \* what closure cells can hold (positive integers)
          MaxRebind,    \* environment: rebindings of captured variables in a behaviour
          MaxReuse,     \* environment: new code objects placed at the address of a dead one
          Mutant        \* "none" | "norecheck" | "dropopts" | "keybyenv" | "bindfirst" | "earlyrelease"
                        \* | "bindequal" | "memoaddr"

VARIABLES fns,          \* live function objects
          used,         \* code ids ever used (never reused: a new code object is a new identity)
          cache,        \* [Codes \X Opts -> factory]  NoFac = absent
          owner, depth, \* the RLock
          stack,        \* [Threads -> Seq(Frame)]  the requests a thread is inside of
          ntr,          \* [Codes \X Opts -> Nat]  successful transforms per (code, options)
          facEnv,       \* [Keys -> env or 0]  only used by Mutant = "bindfirst" / "bindequal"
          cellval,      \* [Envs -> Vals]  current contents of the closure cells of an environment
          addr,         \* [Codes -> Nat]  address of a code object (0 = never allocated); dead ones keep theirs
          memo,         \* <<address, code>>  only used by Mutant = "memoaddr"
          returned,     \* history of completed requests
          cnt           \* [req: [Threads -> Nat], nest, fail, redef, coll, rebind, reuse: Nat]

vars == <<fns, used, cache, owner, depth, stack, ntr, facEnv, cellval, addr, memo, returned, cnt>>
heap == <<cellval, addr>>     \* the part of the Python heap the protocol must not depend on

F(c, e) == [code |-> c, env |-> e]
Keys == Codes \X Opts
NoOwner == 0
(* A factory is named by what it was made from and by how many successful transforms of *)
(* that key preceded it: <<code, opts, n>>.  (No global numbering: the order in which   *)
(* unrelated factories are made is irrelevant.)                                         *)
NoFac == <<0, 0, 0>>
FacKey(fc) == <<fc[1], fc[2]>>

(* ---- frames ------------------------------------------------------------ *)
NewFrame(f, o) == [code |-> f.code, env |-> f.env, o |-> o, pc |-> "fast",
                   seen |-> FALSE, fac |-> NoFac, renv |-> 0]
Busy(t)      == stack[t] # <<>>
Top(t)       == stack[t][Len(stack[t])]
At(t, p)     == Busy(t) /\ Top(t).pc = p
SetTop(t, fr) == [stack EXCEPT ![t] = [@ EXCEPT ![Len(@)] = fr]]
Push(t, fr)  == [stack EXCEPT ![t] = Append(@, fr)]
Pop(t)       == [stack EXCEPT ![t] = SubSeq(@, 1, Len(@) - 1)]
Goto(t, p)   == stack' = SetTop(t, [Top(t) EXCEPT !.pc = p])

(* the key the table is indexed with (cache.py CodeObjectCache._get_key,   *)
(* api.py PyToPy.get_caching_key); RealKey is what the property talks about *)
RealKey(fr) == <<fr.code, fr.o>>
(* Mutant "memoaddr": a one-entry memo <<address, code>> in front of the table remembers the bucket looked  *)
(* up last by the *address* of its key; it holds the bucket strongly and nothing invalidates it.            *)
KeyCode(fr) == IF Mutant = "keybyenv" THEN fr.env
               ELSE IF Mutant = "memoaddr" /\ memo[1] = addr[fr.code] THEN memo[2] ELSE fr.code
Key(fr) == <<KeyCode(fr),
             IF Mutant = "dropopts" THEN CHOOSE o \in Opts : \A p \in Opts : o <= p ELSE fr.o>>
Cached(fr) == cache[Key(fr)] # NoFac
(* the memo after a lookup for frame fr that leaves the table as `tbl` (a bucket that exists is remembered) *)
MemoAfter(fr, tbl) == IF Mutant = "memoaddr" /\ (\E o \in Opts : tbl[<<KeyCode(fr), o>>] # NoFac)
                        THEN <<addr[fr.code], KeyCode(fr)>> ELSE memo

(* pcs at which the code is inside `with self._cache_lock:` *)
LockedPcs == {"recheck", "lockget", "transform", "transforming", "store", "release", "failrel"}

(* ---- initial state ------------------------------------------------------ *)
InitBase(F0) ==
  /\ fns = F0 /\ used = {f.code : f \in F0}
  /\ addr = [c \in Codes |-> IF c \in {f.code : f \in F0} THEN c ELSE 0]
  /\ memo = <<0, 0>>
  /\ cache = [k \in Keys |-> NoFac]
  /\ owner = NoOwner /\ depth = 0
  /\ stack = [t \in Threads |-> <<>>]
  /\ ntr = [k \in Keys |-> 0] /\ facEnv = [k \in Keys |-> 0]
  /\ returned = {}
  /\ cnt = [req |-> [t \in Threads |-> 0], nest |-> 0, fail |-> 0, redef |-> 0, coll |-> 0, rebind |-> 0, reuse |-> 0]
(* all cells hold equal values to begin with: environments are told apart by identity only *)
MinVal == CHOOSE v \in Vals : \A w \in Vals : v <= w
InitWith(F0) == InitBase(F0) /\ cellval = [e \in Envs |-> MinVal]
Init == InitWith(InitFns)

(* ---- a request ---------------------------------------------------------- *)
Start(t, f, o) ==
  /\ ~Busy(t) /\ cnt.req[t] < MaxReq /\ f \in fns
  /\ stack' = Push(t, NewFrame(f, o))
  /\ cnt' = [cnt EXCEPT !.req[t] = @ + 1]
  /\ UNCHANGED <<fns, used, cache, owner, depth, ntr, facEnv, heap, memo, returned>>

(* lock-free has(): begin / atomic read / end *)
HasBegin(t) ==
  /\ At(t, "fast") /\ Goto(t, "fastrd")
  /\ UNCHANGED <<fns, used, cache, owner, depth, ntr, facEnv, heap, memo, returned, cnt>>
FastRead(t) ==
  /\ At(t, "fastrd")
  /\ stack' = SetTop(t, [Top(t) EXCEPT !.seen = Cached(Top(t)), !.pc = "fastrdd"])
  /\ memo' = MemoAfter(Top(t), cache)
  /\ UNCHANGED <<fns, used, cache, owner, depth, ntr, facEnv, heap, returned, cnt>>
HasEnd(t) ==
  /\ At(t, "fastrdd")
  /\ stack' = SetTop(t, [Top(t) EXCEPT !.seen = FALSE, !.pc = IF Top(t).seen THEN "fastget" ELSE "wait"])
  /\ UNCHANGED <<fns, used, cache, owner, depth, ntr, facEnv, heap, memo, returned, cnt>>
(* fast path: self._cache[fn][subkey] without the lock (a missing entry would be a KeyError: FastGetSafe) *)
FastGet(t) ==
  /\ At(t, "fastget") /\ Cached(Top(t))
  /\ stack' = SetTop(t, [Top(t) EXCEPT !.fac = cache[Key(Top(t))], !.pc = "inst"])
  /\ memo' = MemoAfter(Top(t), cache)
  /\ UNCHANGED <<fns, used, cache, owner, depth, ntr, facEnv, heap, returned, cnt>>

(* slow path *)
Acquire(t) ==
  /\ At(t, "wait") /\ owner \in {NoOwner, t}
  /\ owner' = t /\ depth' = depth + 1
  /\ Goto(t, IF Mutant = "norecheck" THEN "transform" ELSE "recheck")
  /\ UNCHANGED <<fns, used, cache, ntr, facEnv, heap, memo, returned, cnt>>
ReCheck(t) ==
  /\ At(t, "recheck") /\ Goto(t, IF Cached(Top(t)) THEN "lockget" ELSE "transform")
  /\ memo' = MemoAfter(Top(t), cache)
  /\ UNCHANGED <<fns, used, cache, owner, depth, ntr, facEnv, heap, returned, cnt>>
LockGet(t) ==
  /\ At(t, "lockget")
  /\ stack' = SetTop(t, [Top(t) EXCEPT !.fac = cache[Key(Top(t))], !.pc = "release"])
  /\ memo' = MemoAfter(Top(t), cache)
  /\ UNCHANGED <<fns, used, cache, owner, depth, ntr, facEnv, heap, returned, cnt>>
TransformBegin(t) ==
  /\ At(t, "transform") /\ Goto(t, "transforming")
  /\ UNCHANGED <<fns, used, cache, owner, depth, ntr, facEnv, heap, memo, returned, cnt>>
(* reading / parsing the source fails before transform_ast is entered (e.g. no source available) *)
ParseFail(t) ==
  /\ At(t, "transform") /\ cnt.fail < MaxFail /\ Goto(t, "failrel")
  /\ cnt' = [cnt EXCEPT !.fail = @ + 1]
  /\ UNCHANGED <<fns, used, cache, owner, depth, ntr, facEnv, heap, memo, returned>>
(* transform_ast of the top frame asks the same transpiler to convert another function *)
Nested(t, f, o) ==
  /\ At(t, "transforming") /\ Len(stack[t]) < MaxDepth /\ cnt.nest < MaxNest /\ f \in fns
  /\ \A i \in 1..Len(stack[t]) : RealKey(stack[t][i]) # <<f.code, o>>
  /\ stack' = Push(t, NewFrame(f, o))
  /\ cnt' = [cnt EXCEPT !.nest = @ + 1]
  /\ UNCHANGED <<fns, used, cache, owner, depth, ntr, facEnv, heap, memo, returned>>
TransformFail(t) ==
  /\ At(t, "transforming") /\ cnt.fail < MaxFail /\ Goto(t, "failrel")
  /\ cnt' = [cnt EXCEPT !.fail = @ + 1]
  /\ UNCHANGED <<fns, used, cache, owner, depth, ntr, facEnv, heap, memo, returned>>
TransformOk(t) ==
  /\ At(t, "transforming")
  /\ ntr' = [ntr EXCEPT ![RealKey(Top(t))] = @ + 1]
  /\ stack' = SetTop(t, [Top(t) EXCEPT !.fac = <<Top(t).code, Top(t).o, ntr[RealKey(Top(t))] + 1>>,
                                       !.pc = IF Mutant = "earlyrelease" THEN "m_release" ELSE "store"])
  /\ UNCHANGED <<fns, used, cache, owner, depth, facEnv, heap, memo, returned, cnt>>
Store(t) ==
  /\ At(t, "store")
  /\ cache' = [cache EXCEPT ![Key(Top(t))] = Top(t).fac]
  /\ memo' = MemoAfter(Top(t), cache')
  /\ Goto(t, "release")
  /\ UNCHANGED <<fns, used, owner, depth, ntr, facEnv, heap, returned, cnt>>
Unlock == /\ depth' = depth - 1
          /\ owner' = IF depth = 1 THEN NoOwner ELSE owner
Release(t) ==
  /\ At(t, "release") /\ owner = t /\ Unlock /\ Goto(t, "inst")
  /\ UNCHANGED <<fns, used, cache, ntr, facEnv, heap, memo, returned, cnt>>
(* the exception leaves the with block: nothing stored, lock released ... *)
ReleaseFail(t) ==
  /\ At(t, "failrel") /\ owner = t /\ Unlock /\ Goto(t, "raise")
  /\ UNCHANGED <<fns, used, cache, ntr, facEnv, heap, memo, returned, cnt>>
(* ... and propagates to the caller (for a nested request: into the outer transform_ast) *)
Raise(t) ==
  /\ At(t, "raise") /\ stack' = Pop(t)
  /\ UNCHANGED <<fns, used, cache, owner, depth, ntr, facEnv, heap, memo, returned, cnt>>

(* factory.instantiate(fn.__globals__, fn.__closure__, fn.__defaults__, ..): the result is bound to the  *)
(* cells of the requesting function - to the locations, whatever they hold at the moment.               *)
(* Mutant "bindfirst": the factory keeps the first binding; "bindequal": it reuses its previous binding *)
(* when the closure *compares equal* (cells compare by contents).                                       *)
Instantiate(t) ==
  /\ At(t, "inst")
  /\ LET fr == Top(t)
         last == facEnv[FacKey(fr.fac)]
         e == CASE Mutant = "bindfirst" /\ last # 0 -> last
                [] Mutant = "bindequal" /\ last # 0 /\ cellval[last] = cellval[fr.env] -> last
                [] OTHER -> fr.env
     IN /\ stack' = SetTop(t, [fr EXCEPT !.renv = e, !.pc = "ret"])
        /\ facEnv' = CASE Mutant = "bindfirst" /\ last = 0 -> [facEnv EXCEPT ![FacKey(fr.fac)] = fr.env]
                       [] Mutant = "bindequal" -> [facEnv EXCEPT ![FacKey(fr.fac)] = e]
                       [] OTHER -> facEnv
  /\ UNCHANGED <<fns, used, cache, owner, depth, ntr, heap, memo, returned, cnt>>
Return(t) ==
  /\ At(t, "ret")
  /\ LET fr == Top(t) IN
       returned' = returned \cup {[code |-> fr.code, env |-> fr.env, o |-> fr.o, fac |-> fr.fac, renv |-> fr.renv]}
  /\ stack' = Pop(t)
  /\ UNCHANGED <<fns, used, cache, owner, depth, ntr, facEnv, heap, memo, cnt>>

(* ---- only reachable when Mutant = "earlyrelease": lock released before the store *)
MRelease(t) ==
  /\ At(t, "m_release") /\ owner = t /\ Unlock /\ Goto(t, "m_store")
  /\ UNCHANGED <<fns, used, cache, ntr, facEnv, heap, memo, returned, cnt>>
MStore(t) ==
  /\ At(t, "m_store")
  /\ cache' = [cache EXCEPT ![Key(Top(t))] = Top(t).fac]
  /\ Goto(t, "inst")
  /\ UNCHANGED <<fns, used, owner, depth, ntr, facEnv, heap, memo, returned, cnt>>

(* ---- environment --------------------------------------------------------- *)
InFlight(c) == \E t \in Threads : \E i \in 1..Len(stack[t]) : stack[t][i].code = c
LiveAddrs == {addr[f.code] : f \in fns}                \* live code objects have pairwise distinct addresses
FreeAddrs == {addr[c] : c \in used} \ LiveAddrs         \* addresses of dead code objects: the allocator reuses them
NewAddr   == 1 + CHOOSE a \in {addr[c] : c \in Codes} : \A c \in Codes : addr[c] <= a
(* a new function object appears (def statement executed, closure created): its code object lives at    *)
(* address a, its cells hold v.  A code object that is new gets any address no live code object has - a *)
(* never used one or the one of a dead code object; a function object made from a live code object (or  *)
(* sharing the cells of a live function object) finds address (contents) as they are.                   *)
DefineFn(f, a, v) ==
  /\ f \notin fns /\ f.code \in Codes /\ f.env \in Envs /\ v \in Vals
  /\ IF f.code \in used
       THEN /\ \E g \in fns : g.code = f.code               \* a dead code object never comes back
            /\ a = addr[f.code] /\ addr' = addr
       ELSE /\ a \in Nat \ {0} /\ a \notin LiveAddrs
            /\ addr' = [addr EXCEPT ![f.code] = a]
  /\ IF \E g \in fns : g.env = f.env
       THEN v = cellval[f.env] /\ cellval' = cellval
       ELSE cellval' = [cellval EXCEPT ![f.env] = v]
  /\ fns' = fns \cup {f} /\ used' = used \cup {f.code}
  /\ UNCHANGED <<cache, owner, depth, stack, ntr, facEnv, memo, returned>>
FreshCode == CHOOSE c \in Codes \ used : \A d \in Codes \ used : c <= d
(* same name, same globals/closure/defaults, new code object; the old function object may live on.      *)
(* The new code object is allocated at a new address or (<= MaxReuse times) where a dead one used to be *)
Redefine(f) ==
  /\ cnt.redef < MaxRedefine /\ f \in fns /\ Codes \ used # {}
  /\ \E a \in {NewAddr} \cup (IF cnt.reuse < MaxReuse THEN FreeAddrs ELSE {}) :
        /\ DefineFn(F(FreshCode, f.env), a, cellval[f.env])
        /\ cnt' = [cnt EXCEPT !.redef = @ + 1, !.reuse = IF a = NewAddr THEN @ ELSE @ + 1]
(* a captured variable of environment e is rebound (nonlocal assignment in a sibling closure / in the   *)
(* enclosing scope): the cells stay the same objects, their contents change                             *)
Rebind(e, v) ==
  /\ cnt.rebind < MaxRebind /\ e \in Envs /\ v \in Vals
  /\ cellval' = [cellval EXCEPT ![e] = v]
  /\ cnt' = [cnt EXCEPT !.rebind = @ + 1]
  /\ UNCHANGED <<fns, used, cache, owner, depth, stack, ntr, facEnv, addr, memo, returned>>
(* the last function object with code c is dropped: the weak key dies and takes its bucket along *)
Collect(c) ==
  /\ cnt.coll < MaxCollect /\ (\E f \in fns : f.code = c) /\ ~InFlight(c)
  /\ fns' = {f \in fns : f.code # c}
  /\ cache' = [k \in Keys |-> IF k[1] = c /\ Mutant # "keybyenv" /\ ~(Mutant = "memoaddr" /\ memo[2] = c)
                              THEN NoFac ELSE cache[k]]
  /\ cnt' = [cnt EXCEPT !.coll = @ + 1]
  /\ UNCHANGED <<used, owner, depth, stack, ntr, facEnv, heap, memo, returned>>

(* ---- next-state relation -------------------------------------------------- *)
SomeStart(t)  == \E f \in fns, o \in Opts : Start(t, f, o)
SomeNested(t) == \E f \in fns, o \in Opts : Nested(t, f, o)
SomeRedefine  == \E f \in fns : Redefine(f)
SomeCollect   == \E c \in Codes : Collect(c)
SomeRebind    == \E f \in fns : \E v \in Vals \ {cellval[f.env]} : Rebind(f.env, v)
Step(t) == \/ HasBegin(t) \/ FastRead(t) \/ HasEnd(t) \/ FastGet(t)
           \/ Acquire(t) \/ ReCheck(t) \/ LockGet(t)
           \/ TransformBegin(t) \/ ParseFail(t) \/ TransformFail(t) \/ TransformOk(t) \/ SomeNested(t)
           \/ Store(t) \/ Release(t) \/ ReleaseFail(t) \/ Raise(t)
           \/ Instantiate(t) \/ Return(t)
           \/ MRelease(t) \/ MStore(t)
Env == SomeRedefine \/ SomeCollect \/ SomeRebind
Next == \/ \E t \in Threads : (Step(t) \/ SomeStart(t))
        \/ Env
Spec == Init /\ [][Next]_vars
FairSpec == Spec /\ \A t \in Threads : WF_vars(Step(t))

(* ---- reduced exploration (used by the bounded exhaustive configuration only) ---- *)
(* Steps that only move the thread's own frame, or read a part of the shared state  *)
(* that cannot change while the frame is at that pc (an entry that is present stays *)
(* present while a request for its code is in flight; under the lock nobody else    *)
(* writes), or only add to the history `returned`, commute with every step of every *)
(* other thread and of the environment.  Running them to completion before any      *)
(* other step is taken loses no reachable value of cache / lock / ntr / returned    *)
(* and no frame state: every invariant below is a conjunction over single frames    *)
(* and over the monotone history.  (No thread step reads the heap part cellval /    *)
(* addr - Instantiate binds to the *locations* - so Rebind and the choice of an     *)
(* address commute with all of them as well.)                                       *)
(* RSpec is Spec with that priority; the full Spec is checked as well (smaller      *)
(* constants, see vf/props/c10.py).                                                 *)
LocalPcs == {"fast", "fastrdd", "fastget", "recheck", "lockget", "transform", "inst", "ret", "raise"}
Local(t) == \/ HasBegin(t) \/ HasEnd(t) \/ FastGet(t) \/ ReCheck(t) \/ LockGet(t)
            \/ TransformBegin(t) \/ ParseFail(t) \/ Instantiate(t) \/ Return(t) \/ Raise(t)
LocalPending == \E t \in Threads : Busy(t) /\ Top(t).pc \in LocalPcs
RNext == IF LocalPending THEN \E t \in Threads : Local(t) ELSE Next
RSpec == Init /\ [][RNext]_vars
Perms == Permutations(Threads)

(* ---- properties ----------------------------------------------------------- *)
AllFrames == UNION {{stack[t][i] : i \in 1..Len(stack[t])} : t \in Threads}

TypeOK ==
  /\ fns \subseteq [code : Codes, env : Envs] /\ used \subseteq Codes
  /\ owner \in Threads \cup {NoOwner} /\ depth \in 0..MaxDepth
  /\ \A t \in Threads : Len(stack[t]) <= MaxDepth
  /\ \A k \in Keys : cache[k] = NoFac \/ (FacKey(cache[k]) \in Keys /\ cache[k][3] \in 1..ntr[FacKey(cache[k])])
  /\ cellval \in [Envs -> Vals] /\ addr \in [Codes -> 0..Cardinality(Codes)]
  /\ \A c \in Codes : (addr[c] # 0) <=> (c \in used)

(* the source transformation of a (code object, options) pair runs at most once *)
AtMostOnce == \A k \in Keys : ntr[k] <= 1

(* what a request gets = Bind(the factory made from (code(fn), opts), env(fn)) *)
CoherentRec(r) == /\ r.fac # NoFac
                  /\ FacKey(r.fac) = <<r.code, r.o>>
                  /\ r.renv = r.env
Coherent == /\ \A r \in returned : CoherentRec(r)
            /\ \A fr \in AllFrames : fr.pc = "ret" => CoherentRec(fr)

(* whatever a result reads through its closure is what the requesting function reads - at the time of *)
(* the request and after every later rebinding of the captured variables (cells hold equal values in  *)
(* the initial state: an implementation that tells environments apart by *contents* passes until then) *)
FollowsRec(r) == r.renv \in Envs /\ cellval[r.renv] = cellval[r.env]
Follows == \A r \in returned : FollowsRec(r)

(* live code objects never share an address (dead ones may have passed theirs on) *)
AddrOK == \A f, g \in fns : f.code # g.code => addr[f.code] # addr[g.code]

(* different option values / different environments never share a result *)
NoAlias == \A r1, r2 \in returned :
             (r1.o # r2.o \/ r1.env # r2.env) => <<r1.fac, r1.renv>> # <<r2.fac, r2.renv>>

(* a function is never served a factory made from another code object (the old definition) *)
NoStale == /\ \A r \in returned : r.fac[1] = r.code
           /\ \A fr \in AllFrames : fr.fac # NoFac => fr.fac[1] = fr.code

(* the table files every factory under the key it was made from *)
CacheCoherent == \A k \in Keys : cache[k] # NoFac => FacKey(cache[k]) = k

(* transform / store / recheck only by the lock owner; the depth counts the with blocks *)
LockDiscipline ==
  /\ \A t \in Threads : \A i \in 1..Len(stack[t]) :
        stack[t][i].pc \in (LockedPcs \cup {"m_store"}) => owner = t
  /\ \A t \in Threads : \A i \in 1..Len(stack[t]) - 1 : stack[t][i].pc = "transforming"
  /\ depth = Cardinality({<<t, i>> \in Threads \X (1..MaxDepth) :
                             i <= Len(stack[t]) /\ stack[t][i].pc \in LockedPcs \cup {"m_release"}})
  /\ (owner = NoOwner) <=> (depth = 0)

(* the unlocked self._cache[fn][subkey] after a positive has() cannot raise KeyError *)
FastGetSafe == \A t \in Threads : At(t, "fastget") => Cached(Top(t))

(* every request eventually returns (or raises the transform error) *)
Returns == \A t \in Threads : Busy(t) ~> ~Busy(t)

(* ---- ready-made constants for the configurations (cfg files cannot write records) *)
Fns3 == {F(1, 1), F(1, 2), F(2, 3)}      \* 3 function objects over 2 code objects
Fns4 == {F(1, 1), F(1, 2), F(2, 3), F(2, 1)}
Fns2 == {F(1, 1), F(1, 2)}
Done == \A t \in Threads : ~Busy(t) /\ cnt.req[t] = MaxReq
=============================================================================
