------------------------------- MODULE Namer -------------------------------
(***************************************************************************)
(* C11 - generated names never capture, shadow or clash with user names.   *)
(*                                                                         *)
(* Part 1 (design level).  malt.pyct.naming.Namer.new_symbol as a state    *)
(* machine, together with the policy its callers in malt/converters use    *)
(* to build the `reserved` argument: scope.referenced = the names READ in  *)
(* the scope and its parents.  A user function is abstracted to the set of *)
(* identifiers it uses, each with the roles it plays (read / written).     *)
(* New(root): result = the least numbered variant of root that is not in   *)
(* namespace \cup reserved \cup generated.  Invariant FreshVisible: no     *)
(* generated name equals an identifier visible to user code.  With         *)
(* Policy = "referenced" TLC finds the design flaw (a name the user only   *)
(* WRITES is not reserved); with Policy = "all" the invariant holds.       *)
(*                                                                         *)
(* Part 2 (trace validation) is module TraceNamer.                         *)
(***************************************************************************)
EXTENDS Naturals, Sequences, FiniteSets, TLC

(* ------------------------------ Part 1 ---------------------------------- *)
CONSTANTS Roots,     \* name roots the converter asks for, e.g. {"do_return", "retval_"}
          MaxN,      \* numbered variants considered: root, root_1 .. root_MaxN
          Policy     \* "referenced" (as implemented) | "all" (reserve every user identifier)
VARIABLES user,      \* function Name -> SUBSET {"r", "w"}: roles of the identifiers of the user function
          generated, calls
dvars == <<user, generated, calls>>
Names == Roots \X (0..MaxN)                  \* <<root, 0>> is the bare root
Visible == {nm \in Names : user[nm] # {}}
Reserved == IF Policy = "all" THEN Visible ELSE {nm \in Names : "r" \in user[nm]}
Taken == Reserved \cup generated
Least(root) == CHOOSE n \in 0..MaxN : <<root, n>> \notin Taken /\ \A m \in 0..MaxN : m < n => <<root, m>> \in Taken
DInit == /\ user \in [Names -> SUBSET {"r", "w"}]
         /\ generated = {} /\ calls = 0
New(root) == /\ calls < 3
             /\ \E n \in 0..MaxN : <<root, n>> \notin Taken        \* a variant is left within the bound
             /\ generated' = generated \cup {<<root, Least(root)>>}
             /\ calls' = calls + 1 /\ UNCHANGED user
DNext == \E root \in Roots : New(root)
DSpec == DInit /\ [][DNext]_dvars
FreshVisible  == generated \cap Visible = {}
FreshReserved == generated \cap Reserved = {}

=============================================================================
