------------------------------ MODULE Options ------------------------------
(***************************************************************************)
(* Value semantics of malt.core.converter.ConversionOptions (property C20) *)
(*                                                                         *)
(* The space is finite: 2^3 flag combinations x 2^7 feature subsets, each  *)
(* written in one of several *spellings* of the optional_features argument *)
(* (None / a single Feature / tuple / list / set / frozenset).             *)
(*                                                                         *)
(* The module is written like the code:                                    *)
(*   Construct   ConversionOptions.__init__   (normalisation of spellings) *)
(*   Embed       ConversionOptions.to_ast     (STD shortcut, or a          *)
(*               constructor call whose feature argument is a              *)
(*               parenthesised, comma separated list: "()" is the empty    *)
(*               tuple, "(x)" is NOT a tuple, "(x, y)" is a tuple)         *)
(*   Evaluate    eval of the embedded text with ag__ in scope              *)
(*   CallOpts    ConversionOptions.call_options                            *)
(*   Uses        ConversionOptions.uses                                    *)
(* TLC enumerates every (value, spelling), checks the laws on the model    *)
(* and prints the expected observations; the harness compares them with    *)
(* the real class (vf/props/c20.py).                                       *)
(***************************************************************************)
EXTENDS Naturals, FiniteSets, Sequences, TLC, Json

Features == {"ALL", "AUTO_CONTROL_DEPS", "ASSERT_STATEMENTS", "BUILTIN_FUNCTIONS",
             "EQUALITY_OPERATORS", "LISTS", "NAME_SCOPES"}
Spellings == {"none", "single", "tuple", "list", "set", "frozenset"}

VARIABLES phase, arg, val, form, back, callee
vars == <<phase, arg, val, form, back, callee>>

Flags == [r : BOOLEAN, u : BOOLEAN, i : BOOLEAN]

(* ---- what the user writes ---------------------------------------------- *)
(* arg = [r, u, i, sp, fs]: the three flags, the spelling and the feature set *)
SpellingOK(sp, fs) ==
  CASE sp = "none"   -> fs = {}
    [] sp = "single" -> Cardinality(fs) = 1
    [] OTHER         -> TRUE
Args == {a \in [r : BOOLEAN, u : BOOLEAN, i : BOOLEAN, sp : Spellings, fs : SUBSET Features] :
           SpellingOK(a.sp, a.fs)}

(* ---- Construct: __init__ normalises every spelling to a frozenset ------- *)
Construct(a) == [r |-> a.r, u |-> a.u, i |-> a.i, fs |-> a.fs]

Key(v) == <<v.r, v.u, v.i, v.fs>>            \* as_tuple(): basis of __eq__/__hash__
STD == [r |-> TRUE, u |-> FALSE, i |-> TRUE, fs |-> {}]

(* ---- Embed: to_ast ------------------------------------------------------ *)
(* shape of the feature argument text                                      *)
FeatShape(fs) == IF fs = {} THEN "emptytuple"
                 ELSE IF Cardinality(fs) = 1 THEN "parenthesised_single"
                 ELSE "tuple"
Embed(v) == IF Key(v) = Key(STD) THEN [k |-> "STD", r |-> TRUE, u |-> FALSE, i |-> TRUE, shape |-> "", fs |-> {}]
            ELSE [k |-> "CTOR", r |-> v.r, u |-> v.u, i |-> v.i, shape |-> FeatShape(v.fs), fs |-> v.fs]

(* ---- Evaluate: python evaluation of the embedded text ------------------- *)
(* "(x)" evaluates to the Feature x itself -> the 'single' spelling;        *)
(* "()"  evaluates to an empty tuple; "(x, y)" to a tuple.                  *)
Evaluate(f) == IF f.k = "STD" THEN STD
               ELSE Construct([r |-> f.r, u |-> f.u, i |-> f.i,
                               sp |-> IF f.shape = "parenthesised_single" THEN "single" ELSE "tuple",
                               fs |-> f.fs])

CallOpts(v) == [r |-> v.r, u |-> FALSE, i |-> v.r, fs |-> v.fs]
Uses(v, f)  == "ALL" \in v.fs \/ f \in v.fs

(* ---- state machine ------------------------------------------------------ *)
Nil == [r |-> FALSE, u |-> FALSE, i |-> FALSE, fs |-> {}]
NilForm == [k |-> "", r |-> FALSE, u |-> FALSE, i |-> FALSE, shape |-> "", fs |-> {}]

Init == /\ arg \in Args /\ phase = "written" /\ val = Nil /\ form = NilForm /\ back = Nil /\ callee = Nil

DoConstruct == phase = "written" /\ val' = Construct(arg) /\ phase' = "constructed"
               /\ UNCHANGED <<arg, form, back, callee>>
DoEmbed     == phase = "constructed" /\ form' = Embed(val) /\ phase' = "embedded"
               /\ UNCHANGED <<arg, val, back, callee>>
DoEvaluate  == phase = "embedded" /\ back' = Evaluate(form) /\ phase' = "evaluated"
               /\ UNCHANGED <<arg, val, form, callee>>
DoCall      == phase = "evaluated" /\ callee' = CallOpts(back) /\ phase' = "called"
               /\ UNCHANGED <<arg, val, form, back>>
Next == DoConstruct \/ DoEmbed \/ DoEvaluate \/ DoCall
Spec == Init /\ [][Next]_vars

(* ---- the properties, on the model --------------------------------------- *)
RoundTrip   == phase \in {"evaluated", "called"} => Key(back) = Key(val)
StdOnlyStd  == phase \in {"embedded", "evaluated", "called"} => ((form.k = "STD") <=> (Key(val) = Key(STD)))
CallLaw     == phase = "called" =>
                 /\ callee.r = val.r /\ callee.fs = val.fs
                 /\ callee.u = FALSE /\ (callee.i <=> val.r)
CallIdem    == phase = "called" => CallOpts(callee) = callee
UsesLaw     == \A f \in Features : Uses(val, f) <=> (f \in val.fs \/ "ALL" \in val.fs)
(* equality / hash: two written arguments denote equal options iff flags and *)
(* feature sets agree, whatever the spelling                                 *)
(* (linear form: the key is exactly the four normalised fields, hence injective) *)
ASSUME \A a \in Args : Key(Construct(a)) = <<a.r, a.u, a.i, a.fs>>

(* ---- expected observations for the harness (one JSON line per argument) - *)
Expect == phase = "called" =>
  PrintT(ToJson([r |-> arg.r, u |-> arg.u, i |-> arg.i, sp |-> arg.sp, fs |-> arg.fs,
                 form |-> form.k, shape |-> form.shape,
                 callee |-> [r |-> callee.r, u |-> callee.u, i |-> callee.i, fs |-> callee.fs],
                 uses |-> {f \in Features : Uses(val, f)}]))
=============================================================================
