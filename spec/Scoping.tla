------------------------------ MODULE Scoping ------------------------------
(***************************************************************************)
(* C08 (static clause) - Python's binding rules for one name `v` over a    *)
(* chain of nested scopes, as an input-space model.                        *)
(*                                                                         *)
(* A state is a chain  s1 > s2 > s3  (s1 always a function; s2 in          *)
(* {function, lambda, class, comprehension, none}; s3 in {function,        *)
(* lambda, none}) with, per scope, the set of OCCURRENCES of the name v:   *)
(*   P parameter        B plain assignment      A augmented assignment     *)
(*   F for target       W with ... as           M import                   *)
(*   D def named v      X del                   U use (load)               *)
(*   G global decl      N nonlocal decl         (Gi, Ni: inside an if)     *)
(*   comprehensions: U element use, I iterable use, T target               *)
(*   H  use in the HEADER of the nested scope (the default value of a      *)
(*      keyword-only parameter: def s(p, *, k=v) / lambda p, *, k=v; a class     *)
(*      keyword: class s(kw=v)): evaluated by, and therefore a use of,     *)
(*      the ENCLOSING scope                                                *)
(* The module defines, by the rules of the language reference (4.2.2       *)
(* "Resolution of names", 7.12/7.13 global/nonlocal), which chains are     *)
(* legal programs and, for every function scope, how CPython's compiler    *)
(* classifies v there: local / parameter / declared global / implicit      *)
(* global / free (closure variable) / declared nonlocal / absent.          *)
(* TLC enumerates all chains; the harness renders each to source and       *)
(* compares three ways: this specification = symtable.symtable(source)     *)
(* (model validation, exit 2 on disagreement) = the sets reported by the   *)
(* real activity analysis (the property).                                  *)
(***************************************************************************)
EXTENDS Naturals, FiniteSets, Sequences, TLC, Json

Kinds2 == {"function", "lambda", "class", "comprehension", "none"}
Kinds3 == {"function", "lambda", "comprehension", "none"}

Binding == {"P", "B", "A", "F", "W", "M", "D", "X"}

(* occurrence menus per scope kind (each a set of occurrence sets) *)
\* M = import v (I is the comprehension iterable);  Gi / Ni = the declaration is written inside an `if` block of the function
FunOcc == { {}, {"U"}, {"B"}, {"B", "U"}, {"A"}, {"F"}, {"W"}, {"M"}, {"D"}, {"X", "B"}, {"P"}, {"P", "U"}, {"P", "B"},
            {"G"}, {"G", "U"}, {"G", "B"}, {"G", "B", "U"}, {"N"}, {"N", "U"}, {"N", "B"}, {"N", "A"},
            {"Gi", "B"}, {"Gi", "U"}, {"Ni", "B"}, {"Ni", "U"} }
LamOcc == { {}, {"U"}, {"P"}, {"P", "U"} }
ClsOcc == { {}, {"U"}, {"B"}, {"B", "U"}, {"D"}, {"G", "B"}, {"N", "B"}, {"N", "U"} }
\* comprehension: U = the element uses v, I = the (outermost) iterable mentions v, T = v is the target.  A target alone is
\* excepted by the property (and its classification depends on PEP 709 inlining); with T and I together the iterable is
\* evaluated in the enclosing scope BEFORE the target is bound, so v is a use of the enclosing scope.
CmpOcc == { {}, {"U"}, {"I"}, {"T", "I"} }
HdrFun == { {"H"}, {"H", "U"}, {"H", "B"}, {"H", "P"} }
HdrLam == { {"H"}, {"H", "U"} }
HdrCls == { {"H"}, {"H", "B"}, {"H", "U"} }
OccOf(k) == CASE k = "function" -> FunOcc [] k = "lambda" -> LamOcc [] k = "class" -> ClsOcc
              [] k = "comprehension" -> CmpOcc [] OTHER -> {{}}
\* nested scopes may in addition use v in their header
OccOfNested(k) == OccOf(k) \cup (CASE k = "function" -> HdrFun [] k = "lambda" -> HdrLam [] k = "class" -> HdrCls [] OTHER -> {})

VARIABLES K, O
vars == <<K, O>>

Init == /\ K \in {<<"function", k2, k3>> : k2 \in Kinds2, k3 \in Kinds3}
        /\ (K[2] \in {"none", "comprehension"} => K[3] = "none")
        /\ (K[2] = "lambda" => K[3] \notin {"function", "comprehension"})   \* a def cannot be nested in a lambda
        /\ (K[2] = "class" => K[3] # "comprehension")
        /\ O \in {<<o1, o2, o3>> : o1 \in OccOf(K[1]), o2 \in OccOfNested(K[2]), o3 \in OccOfNested(K[3])}
Next == UNCHANGED vars
Spec == Init /\ [][Next]_vars

Depth == IF K[2] = "none" THEN 1 ELSE IF K[3] = "none" THEN 2 ELSE 3
FunLike(i) == K[i] \in {"function", "lambda"}
(* PEP 709 (Python 3.12): list comprehensions are inlined; the occurrences of a comprehension nested directly in *)
(* scope i belong to scope i's symbol table (its target T becomes a local of i, its uses are uses of i).        *)
CompUse(o) == IF o \cap {"U", "I"} # {} THEN {"U"} ELSE {}
HeaderUse(i) == IF i < 3 /\ "H" \in O[i + 1] THEN {"U"} ELSE {}
Occ(i) == IF i < 3 /\ K[i + 1] = "comprehension" THEN (O[i] \ {"H"}) \cup CompUse(O[i + 1])
          ELSE IF K[i] = "comprehension" THEN {} ELSE (O[i] \ {"H"}) \cup HeaderUse(i)

DeclG(i) == Occ(i) \cap {"G", "Gi"} # {}
DeclN(i) == Occ(i) \cap {"N", "Ni"} # {}
Binds(i) == Occ(i) \cap Binding # {}
Local(i) == Binds(i) /\ ~DeclG(i) /\ ~DeclN(i)
Refs(i)  == Occ(i) \cap {"U", "A", "X"} # {}        \* the name is loaded (or deleted) in scope i itself

(* what the enclosing scopes make visible at the entry of scope i: <<vis, glob>>     *)
(* vis: v is a local of an enclosing function-like scope (can be captured);          *)
(* glob: an enclosing scope declared it global (children then see a global)          *)
RECURSIVE Env(_)
Env(i) == IF i = 1 THEN <<FALSE, FALSE>>
          ELSE LET e == Env(i - 1)  j == i - 1 IN
               IF K[j] = "class" THEN e          \* neither the locals nor the global declarations of a class body reach nested scopes
               ELSE IF DeclG(j) THEN <<FALSE, TRUE>>
               ELSE IF Local(j) \/ DeclN(j) THEN <<TRUE, FALSE>>
               ELSE e
Vis(i) == Env(i)[1]

(* does scope i (or a scope nested in it) need v from outside scope i? *)
RECURSIVE NeedsOuter(_)
NeedsOuter(i) ==
  IF i > Depth THEN FALSE
  ELSE IF Local(i) /\ FunLike(i) THEN FALSE
  ELSE IF DeclG(i) THEN FALSE
  ELSE \/ DeclN(i)
       \/ (Refs(i) /\ ~Local(i))
       \/ NeedsOuter(i + 1)

(* some scope of i's subtree refers to v as a module global (explicitly declared or implicit): the activity *)
(* analysis may then list v among the names function i needs from outside (CPython calls it global there) *)
RECURSIVE GRef(_)
GRef(i) == /\ i <= Depth
           /\ \/ DeclG(i)
              \/ (Refs(i) /\ ~Local(i) /\ ~DeclN(i) /\ ~Vis(i))
              \/ (~(Local(i) /\ FunLike(i)) /\ ~DeclG(i) /\ GRef(i + 1))

Legal ==
  /\ \A i \in 1..Depth : ~(DeclG(i) /\ DeclN(i))
  /\ \A i \in 1..Depth : ("P" \in Occ(i)) => ~(DeclG(i) \/ DeclN(i))
  /\ \A i \in 1..Depth : DeclN(i) => Vis(i)            \* "no binding for nonlocal 'v' found"

(* classification of v in function scope i, as CPython's symbol table reports it *)
Class(i) ==
  IF "P" \in Occ(i) THEN "param"
  ELSE IF DeclG(i) THEN "global_explicit"
  ELSE IF DeclN(i) THEN "nonlocal"
  ELSE IF Local(i) THEN "local"
  ELSE IF (Refs(i) \/ NeedsOuter(i + 1)) /\ Vis(i) THEN "free"
  ELSE IF Refs(i) THEN "global_implicit"
  ELSE "absent"

(* v is also captured by a nested scope: a local/param that is a cell variable *)
Cell(i) == (Local(i) \/ "P" \in Occ(i) \/ DeclN(i)) /\ FunLike(i) /\ i < Depth /\ NeedsOuter(i + 1)

Emit == PrintT(ToJson([K |-> K, O |-> O, legal |-> Legal,
                       cls |-> [i \in 1..3 |-> IF i <= Depth /\ Legal THEN Class(i) ELSE "-"],
                       cell |-> [i \in 1..3 |-> i <= Depth /\ Legal /\ Cell(i)],
                       needs |-> [i \in 1..3 |-> i <= Depth /\ Legal /\ NeedsOuter(i)],
                       gref |-> [i \in 1..3 |-> Legal /\ GRef(i)]]))
=============================================================================
