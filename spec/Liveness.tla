------------------------------ MODULE Liveness ------------------------------
(***************************************************************************)
(* C07 - liveness is sound: anything read later is reported live.          *)
(*                                                                         *)
(* Monitor over MiniPy.  For every cell the monitor remembers the most     *)
(* recent place, since the cell was last written, at which the real        *)
(* analysis FAILED to report the variable live although the value was      *)
(* still there:  owe[c] = <<fn, node, slot>> (Nil if none) with slot       *)
(*   "in"   live_in  of a CFG node executed in the owning activation       *)
(*   "out"  live_out of such a node                                        *)
(*   "sout" LIVE_VARS_OUT of a compound statement that was left            *)
(*   "sin"  LIVE_VARS_IN  of a compound statement that was entered.        *)
(* When the value is then READ - by the owning activation or by a closure  *)
(* called later - before being overwritten, owe[c] # Nil is a violation of *)
(* the property (the value was read later, so it had to be reported live   *)
(* at every statement executed in between).  Only nodes executed in the    *)
(* activation that owns the variable carry obligations; extra live         *)
(* variables are never a violation.  Entry/exit of statement instances is  *)
(* derived from lexical ownership, not from the implementation's tables.   *)
(* Outside the class (not judged): everything after an implicit exception  *)
(* or an exception crossing an activation boundary; steps taken while an   *)
(* exception propagates through a finally block.                           *)
(* Once per program: the exported in/out tables solve the liveness         *)
(* equations  out = U in(succ),  gen \cup (out \ kill) \subseteq in         *)
(* \subseteq gen \cup (out \ kill) \cup closures  (closures = the names a   *)
(* reaching local function may need from outside; which of them the        *)
(* analysis has to include is decided dynamically by the monitor).         *)
(***************************************************************************)
EXTENDS MiniPyMon
VARIABLES owe, lastN, off, bad
mvars == <<vars, owe, lastN, off, bad>>

Nil == <<0, 0, "">>
LiveIn(f, n)  == Range(G(f).livein[Idx(n)])
LiveOut(f, n) == Range(G(f).liveout[Idx(n)])
SOut(f, s)    == Range(G(f).sout[s])
SIn(f, s)     == Range(G(f).sin[s])
HasSL(f, s)   == G(f).hassl[s] = 1

(* ---- fixed point ---------------------------------------------------------- *)
EqBad(f) == LET T == G(f).leq IN
  \E i \in 1..Len(T) :
     \/ Range(T[i].out) # UNION {Range(T[j].inn) : j \in Range(T[i].succ)}
     \/ ~(Range(T[i].gen) \cup (Range(T[i].out) \ Range(T[i].kill)) \subseteq Range(T[i].inn))
     \/ ~(Range(T[i].inn) \subseteq Range(T[i].gen) \cup (Range(T[i].out) \ Range(T[i].kill)) \cup Range(T[i].clos))
StaticReport == LET fs == {f \in 1..Len(P.fns) : EqBad(f)} IN
                IF fs = {} THEN "" ELSE ToString(<<"fixpoint", CHOOSE f \in fs : TRUE>>)

MInit == /\ Init /\ owe = [c \in 1..Len(cells) |-> Nil]
         /\ lastN = <<0>> /\ off = FALSE /\ bad = Reports0(StaticReport)

MStep ==
  /\ Step
  /\ LET nc == NC(ctrl)  nc2 == NC(ctrl')
         tc == TopCall(ctrl)  e == tc.env  f == envs[e].fn  n == cur'
         exempt == ExcPending(ctrl)
         judged == ~off /\ ~exempt
         isPush == nc2 > nc
         isRet  == nc2 < nc /\ how' = "ret" /\ nc2 > 0
         prevN  == lastN[nc]
         mine   == OwnedCells(envs, e)
         Nm(c)  == NameOfCell(envs, e, c)
         \* statements of this activation left / entered by the transition prevN -> n
         left    == IF n = 0 THEN {} ELSE {s \in Anc(prevN) \ Anc(n) : HasSL(f, s)}
         entered == IF n = 0 THEN {} ELSE {s \in Anc(n) \ Anc(prevN) : HasSL(f, s)}
         \* obligations created before n executes, in temporal order: sout, sin, in(n)
         Before(c) ==
            LET nm == Nm(c)
                o1 == IF \E s \in left : nm \notin SOut(f, s)
                      THEN <<f, CHOOSE s \in left : nm \notin SOut(f, s), "sout">> ELSE owe[c]
                o2 == IF \E s \in entered : nm \notin SIn(f, s)
                      THEN <<f, CHOOSE s \in entered : nm \notin SIn(f, s), "sin">> ELSE o1
                o3 == IF n # 0 /\ nm \notin LiveIn(f, n) THEN <<f, n, "in">> ELSE o2
            IN o3
         oweB == [c \in 1..Len(cells) |->
                    IF judged /\ c \in mine /\ cells[c] # Unbound THEN Before(c) ELSE owe[c]]
         \* `except E as name` variables are excepted (the analysis isolates them): never judged
         reads   == IF judged /\ n # 0 THEN {c \in rd' : c # 0 /\ cells[c] # Unbound /\ c \notin hb} ELSE {}
         readBad == {c \in reads : oweB[c] # Nil}
         \* the reported obligation is discharged (not reported again at every later read of the same value)
         rep1 == IF readBad = {} THEN 0 ELSE CHOOSE c \in readBad : TRUE
         oweC == [c \in 1..Len(cells) |-> IF c = rep1 THEN Nil ELSE oweB[c]]
         \* after n executed: written cells start afresh; the others owe live_out(n)
         \* (for a call node the out-obligation is created when the call returns)
         After(c) ==
            LET nm == Nm(c) IN
            IF c \in wr' THEN (IF cells'[c] # Unbound /\ ~isPush /\ n # 0 /\ nm \notin LiveOut(f, n) THEN <<f, n, "out">> ELSE Nil)
            ELSE IF n # 0 /\ ~isPush /\ nm \notin LiveOut(f, n) THEN <<f, n, "out">>
            ELSE oweC[c]
         owe1 == [c \in 1..Len(cells') |->
                    IF c > Len(cells) THEN Nil
                    ELSE IF judged /\ c \in mine /\ (cells[c] # Unbound \/ c \in wr') THEN After(c)
                    ELSE IF c \in wr' THEN Nil
                    ELSE oweC[c]]
         \* return into the caller: the call node's live_out applies to the caller's variables now
         rcl == IF isRet THEN RetCall(ctrl, nc2) ELSE tc
         ce == rcl.cenv   cf == IF isRet THEN envs[ce].fn ELSE f   calln == rcl.node
         owe2 == IF ~isRet \/ off THEN owe1 ELSE
                 [c \in 1..Len(cells') |->
                    IF c \in OwnedCells(envs, ce) /\ cells'[c] # Unbound
                    THEN (IF NameOfCell(envs, ce, c) \notin LiveOut(cf, calln) THEN <<cf, calln, "out">>
                          ELSE IF c \in wr' THEN Nil ELSE owe1[c])
                    ELSE owe1[c]]
         offNow == how' = "exc" /\ (n = 0 \/ ND(n).kind # "raise" \/ nc2 < nc)
     IN
     /\ bad' = Note(bad,
               IF readBad # {} THEN
                    LET c == rep1
                        oe == OwnerOf(envs, c) IN
                    ToString(<<"live", f, n, NameOfCell(envs, oe, c), oweB[c][1], oweB[c][2], oweB[c][3], oe = e>>)
               ELSE "")
     /\ owe' = owe2
     /\ off' = (off \/ offNow)
     /\ lastN' = LET upd == IF n # 0 THEN [lastN EXCEPT ![nc] = n] ELSE lastN IN
                 IF nc2 > nc THEN Append(upd, 0) ELSE SubSeq(upd, 1, nc2)

MSpec == MInit /\ [][MStep]_mvars
Report == (status[1] # "run") => PrintT(ToJson([pid |-> pid, dec |-> dec, inp |-> inp, bad |-> bad, log |-> log, out |-> Out, xlog |-> xlog, xnode |-> xnode, xfirst |-> xfirst, delx |-> delx, oc |-> oc, finx |-> finx, gl |-> Globals]))
=============================================================================
