--------------------------- MODULE TypeTablesDump ---------------------------
(* Prints the head-level typing tables of TypeTables.tla as JSON.  The       *)
(* harness builds the truthful resolver from this dump and validates every   *)
(* entry against CPython.                                                    *)
EXTENDS TypeTables, TLC, Json

VARIABLE done
Init == done = FALSE
Next == done' = TRUE
Spec == Init /\ [][Next]_done

Dump == done =>
  PrintT(ToJson([
    bin |-> {<<op, a, b, BinTag(op, a, b)>> : op \in BinOps, a \in Heads, b \in Heads},
    cmp |-> {<<op, a, b, CmpTag(op, a, b)>> : op \in CmpOps, a \in Heads, b \in Heads},
    un  |-> {<<op, a, UnTag(op, a)>> : op \in UnOps, a \in Heads},
    iter |-> {<<a, IterKind(<<a>>)>> : a \in Heads}
  ]))
=============================================================================
