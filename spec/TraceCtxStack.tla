---------------------------- MODULE TraceCtxStack ----------------------------
(***************************************************************************)
(* Trace validation for CtxStack (property C16, code -> spec).             *)
(*                                                                         *)
(* C16_TRACES is a JSON file with a sequence of *runs*.  A run is what     *)
(* 1..16 real threads logged while each executed a call tree through the   *)
(* real malt wrappers:                                                     *)
(*   [id, nt, esc: <<BOOLEAN per thread>>, ev: << event >>]                *)
(*   event = [t, n, tag, cid, st, conv, k]                                 *)
(* the probe events of all threads merged in the order of a global atomic  *)
(* counter.  t = thread, n = call-tree node, tag = pre/in/out/raise/       *)
(* caught/post, cid = canonical number of the context *object* that        *)
(* control_status_ctx() returned, st = its status, conv = whether the      *)
(* probing body ran converted, k = the wrapper kind of the call (pre only; *)
(* an input, logged by the harness when it builds the callee).             *)
(*                                                                         *)
(* The run is accepted iff it is a behaviour of CtxStack: every event must *)
(* be the probe event of the one CtxStack action that the thread can take  *)
(* next (after its silent wrapper steps), with the same status, the same   *)
(* conversion mode, and the same context identity: `m` maps the model's    *)
(* context ids to the observed objects and must stay a function (a context *)
(* that the model says is current again must be the very same object).     *)
(* An object seen in place of the expected one that belongs to a context   *)
(* of another thread is an isolation failure.                              *)
(*                                                                         *)
(* Verdicts are latched in `verdict` and printed from the always-true      *)
(* reporting invariant Report; the harness reads them.                     *)
(***************************************************************************)
EXTENDS CtxStack, IOUtils

Runs == JsonDeserialize(IOEnv.C16_TRACES)

VARIABLES run,      \* index of the run being validated
          l,        \* next event
          m,        \* set of <<model context id, observed object number>>
          verdict
tvars == <<vars, run, l, m, verdict>>

NoVerdict == [v |-> "", l |-> 0, clause |-> "", exp |-> Event(0, 0, "-", NoCtx, FALSE), owner |-> 0]

Cur   == Runs[run].ev
HasEv == l <= Len(Cur)
E     == Cur[l]

TInit == /\ Init
         /\ run \in 1..Len(Runs)
         /\ l = 1 /\ m = {} /\ verdict = NoVerdict

(* which CtxStack action emits the probe with this tag *)
ProbeStep(t, e) ==
  \/ e.tag = "in"     /\ BodyStart(t)
  \/ e.tag = "pre"    /\ Call(t, e.k)
  \/ e.tag = "raise"  /\ Raise(t)
  \/ e.tag = "out"    /\ Finish(t)
  \/ e.tag = "caught" /\ Catch(t)
  \/ e.tag = "post"   /\ (After(t) \/ Propagate(t))

MidOf(cid)  == {p[1] : p \in {q \in m : q[2] = cid}}
CidOf(mid)  == {p[2] : p \in {q \in m : q[1] = mid}}
OwnerOf(mid) == mid \div 1000

(* first disagreement between the model's event x and the logged event e; "" if none.
   Identity: a model context that was observed before must be observed as the same object again (m is a
   function; it need not be injective - the property does not demand that contexts are fresh objects).
   If the object seen instead is one that the model created in another thread it is an isolation failure. *)
Foreign(e) == \E q \in MidOf(e.cid) : OwnerOf(q) # e.t      \* the object is a context of another thread
Clause(x, e) ==
  IF x.n # e.n THEN "node"
  ELSE IF CidOf(x.id) # {} /\ CidOf(x.id) # {e.cid} THEN (IF Foreign(e) THEN "isolation" ELSE "identity")
  ELSE IF x.st # e.st THEN (IF Foreign(e) THEN "isolation" ELSE "status")
  ELSE IF x.conv # e.conv THEN "mode"
  ELSE ""

Active == verdict = NoVerdict

(* silent wrapper steps of the thread whose event comes next *)
TSilent == /\ Active /\ HasEv /\ Silent(E.t)
           /\ UNCHANGED <<run, l, m, verdict>>

TEvent == /\ Active /\ HasEv /\ ~ENABLED Silent(E.t)
          /\ ProbeStep(E.t, E)
          /\ LET c == Clause(ev', E) IN
               /\ verdict' = IF c = "" THEN NoVerdict
                             ELSE [v |-> "mismatch", l |-> l, clause |-> c, exp |-> ev',
                                   owner |-> IF MidOf(E.cid) = {} THEN 0 ELSE OwnerOf(CHOOSE q \in MidOf(E.cid) : TRUE)]
               /\ m' = IF c = "" THEN m \cup {<<ev'.id, E.cid>>} ELSE m
          /\ l' = l + 1
          /\ UNCHANGED run

(* the thread cannot emit this kind of probe now *)
TStuck == /\ Active /\ HasEv /\ ~ENABLED Silent(E.t) /\ ~ENABLED ProbeStep(E.t, E)
          /\ verdict' = [v |-> "mismatch", l |-> l, clause |-> "structure", owner |-> 0,
                         exp |-> IF cs[E.t] = <<>> THEN Event(E.t, 0, "finished", NoCtx, FALSE)
                                 ELSE Event(E.t, TopFrame(E.t).n, TopFrame(E.t).ph, Top(E.t), exc[E.t])]
          /\ UNCHANGED <<vars, run, l, m>>

(* after the last event every thread runs its remaining silent steps *)
CanFinish(t) == ENABLED Silent(t)
TFinish == /\ Active /\ ~HasEv
           /\ \E t \in Threads : /\ CanFinish(t) /\ \A u \in Threads : (u < t) => ~CanFinish(u)
                                 /\ Silent(t)
           /\ UNCHANGED <<run, l, m, verdict>>

TDone == /\ Active /\ ~HasEv /\ \A t \in Threads : ~CanFinish(t)
         /\ verdict' = IF \A t \in 1..Runs[run].nt : cs[t] = <<>> /\ exc[t] = Runs[run].esc[t]
                         THEN [NoVerdict EXCEPT !.v = "accepted", !.l = l]
                         ELSE [NoVerdict EXCEPT !.v = "mismatch", !.l = l, !.clause = "incomplete"]
         /\ UNCHANGED <<vars, run, l, m>>

TNext == TSilent \/ TEvent \/ TStuck \/ TFinish \/ TDone
TSpec == TInit /\ [][TNext]_tvars

Report == (verdict # NoVerdict) =>
  PrintT(ToJson([run |-> Runs[run].id, v |-> verdict.v, l |-> verdict.l, clause |-> verdict.clause,
                 exp |-> verdict.exp, owner |-> verdict.owner]))
=============================================================================
