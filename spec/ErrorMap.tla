------------------------------ MODULE ErrorMap ------------------------------
(***************************************************************************)
(* Property C12 - errors in converted code are reported at the original    *)
(* source location.                                                        *)
(*                                                                         *)
(* The module models                                                       *)
(*  (a) the scenario space: a call chain f1 -> f2 -> .. -> fN (N <= 4),    *)
(*      f1 being the function handed to malt.convert, every further link   *)
(*      one of  conv  (plain user function: converted recursively),        *)
(*              dnc   (decorated with do_not_convert),                     *)
(*              allow (lives in an allow-listed module),                   *)
(*              nested (defined by a `def` inside the body of its caller:  *)
(*                     converted together with it - one conversion unit,   *)
(*                     one generated module, one source map);              *)
(*      every function may start with a prelude of scope-opening           *)
(*      statements that are not on the call path (a lambda stored in a     *)
(*      variable, a local def, a local def containing a lambda; each is    *)
(*      called once, successfully);                                        *)
(*      each function is a straight nest of compound statements (if body,  *)
(*      else branch, for, while, with, try body, finally body; one         *)
(*      statement per source line) around one statement: the call of the   *)
(*      next function, or - in fN - a block of seven statements of which   *)
(*      the input k selects the one that fails;                            *)
(*  (b) the layout of the rendered source files (which line every          *)
(*      statement is on), hence the original function's own traceback;     *)
(*  (c) the traceback of the *converted* run as a sequence of abstract     *)
(*      frames [file, fn, line], file in U/A (user module / allow-listed   *)
(*      user module), G1..G4 (generated module of fi), API (malt/impl/     *)
(*      api.py, the `converter_filename`), INT (other malt internals);     *)
(*      the source map of fi as a set of entries generated line -> origin; *)
(*      the origin's function name comes from the transcription of         *)
(*      OriginResolver.visit (actions ResolveDef / ResolveStmt /           *)
(*      ResolveLambda / ResolveEnd: a stack of function names, pushed on   *)
(*      entering a FunctionDef, popped on leaving it), run over the        *)
(*      statements of every conversion unit in textual order;              *)
(*  (d) the error rewriting, transcribed action for action:                *)
(*        Catch        converted_call `except Exception` +                 *)
(*                     _attach_error_metadata (cause_tb = extract_tb[1:])  *)
(*        ScanMapped / ScanConverter / ScanOther / ScanEnd                 *)
(*                     the loop of _stack_trace_inside_mapped_code, one    *)
(*                     action per iteration and branch                     *)
(*        Attach       ErrorMetadataBase.__init__ (daisy chaining)         *)
(*        Wrapper      convert().wrapper -> to_exception ->                *)
(*                     _ErrorMetadata.create_exception / ErrorMetadataBase *)
(*                     .create_exception (type rule)                       *)
(* The property clauses are the invariants at the end of the module.       *)
(* Mode "frames" runs only the scan on every sequence of <= MaxFrames      *)
(* frames over the four frame classes (differential test of the            *)
(* transcription against the real function).                               *)
(* Deliberate deviations: ag_pass_through, the PyCTError/StagingError      *)
(* first branch of _ErrorMetadata.create_exception (only reachable with    *)
(* nested convert wrappers) and get_message's text layout are not modelled;*)
(* the message is the pair <<type name, text>>.                            *)
(***************************************************************************)
EXTENDS Naturals, Sequences, FiniteSets, TLC, Json

CONSTANTS Mode,            \* "scenario" | "frames"
          MinChain, MaxChain,
          MaxNestCaller, CallerCtxs,
          MinNestInner, MaxNestInner, InnerCtxs,
          Tails, Links,
          Pres, MaxPre,    \* prelude kinds allowed (subset of {"lam", "def", "deflam"}), max prelude items per function
          Ks,              \* failing statement positions enumerated (subset of 1..7)
          PreU, PreA,      \* number of preamble lines of the two rendered files
          MaxFrames

VARIABLES pc, chain, nest, pre, tail, k, prior,   \* the scenario
          evs, ridx, fstack, names,          \* OriginResolver: nodes to visit, position, function-name stack, (file, line) -> name
          lvl, tb, map, j, res,              \* one run of the scan
          meta, scans, out
vars == <<pc, chain, nest, pre, tail, k, prior, evs, ridx, fstack, names, lvl, tb, map, j, res, meta, scans, out>>

Ctxs == {"if", "else", "for", "while", "with", "try", "fin"}
FnNames == <<"f1", "f2", "f3", "f4">>
GFiles  == <<"G1", "G2", "G3", "G4">>

(* ------------------------------------------------------------------------ *)
(* Layout of the rendered source (mirrors the templates of vf/c12_render.py; *)
(* validated against CPython's traceback of the unconverted run)            *)
(* ------------------------------------------------------------------------ *)
Before(c)  == CASE c \in {"if", "for", "with", "try"} -> 1
                [] c \in {"else", "while", "fin"}      -> 3
After(c)   == IF c = "try" THEN 2 ELSE 0
HdrOff(c)  == IF c = "while" THEN 1 ELSE 0
Lowered(c) == c \in {"if", "else", "for", "while"}    \* rewritten into ag__.*_stmt(body functions)
BodyFn(c)  == CASE c = "if" -> "if_body" [] c = "else" -> "else_body" [] OTHER -> "loop_body"
OpFn(c)    == CASE c \in {"if", "else"} -> "if_stmt" [] c = "for" -> "for_stmt" [] OTHER -> "while_stmt"

RECURSIVE SumBefore(_), SumAfter(_)
SumBefore(s) == IF s = <<>> THEN 0 ELSE Before(Head(s)) + SumBefore(Tail(s))
SumAfter(s)  == IF s = <<>> THEN 0 ELSE After(Head(s)) + SumAfter(Tail(s))

N == Len(chain)
Nested(i) == chain[i] = "nested"                     \* fi is a `def` inside the body of f(i-1)
HasChild(i) == i < N /\ Nested(i + 1)
RECURSIVE Unit(_), FileOf(_)
Unit(i) == IF Nested(i) THEN Unit(i - 1) ELSE i      \* the separately converted function fi is converted with
Eff(i) == \A q \in 1..i : chain[q] \in {"conv", "nested"}   \* fi runs converted
FileOf(i) == IF Nested(i) THEN FileOf(i - 1) ELSE IF chain[i] = "allow" THEN "A" ELSE "U"
Dec(i) == IF chain[i] = "dnc" THEN 1 ELSE 0           \* decorator line
FailOnHdr == tail = "hdr" /\ k = 7
(* prelude items: lam     g = lambda z: ..  /  r = r + g(..)                                  *)
(*                def     def h(z):  /  return ..  /  r = r + h(..)                           *)
(*                deflam  def h(z):  /  w = lambda y: ..  /  return w(z)  /  r = r + h(..)    *)
PreLen(kd) == CASE kd = "lam" -> 2 [] kd = "def" -> 3 [] kd = "deflam" -> 4
RECURSIVE SumPre(_)
SumPre(s) == IF s = <<>> THEN 0 ELSE PreLen(Head(s)) + SumPre(Tail(s))
RECURSIVE FLen(_)
FLen(i) == Dec(i) + 2 + SumPre(pre[i]) + (IF HasChild(i) THEN FLen(i + 1) ELSE 0)
           + SumBefore(nest[i]) + (IF i = N THEN 7 ELSE 1) + SumAfter(nest[i])
           + (IF i = N /\ tail = "hdr" THEN 2 ELSE 0) + 1
RECURSIVE LinesBefore(_, _)
LinesBefore(i, q) == IF q = 0 THEN 0          \* lines of the module-level functions before fi in fi's file
                     ELSE (IF FileOf(q) = FileOf(i) /\ ~Nested(q) THEN FLen(q) ELSE 0) + LinesBefore(i, q - 1)
RECURSIVE Start(_)
DefLine(i)   == Start(i) + Dec(i)
PreStart(i)  == DefLine(i) + 2                                   \* def line, one filler statement, then the prelude
Start(i)     == IF Nested(i) THEN PreStart(i - 1) + SumPre(pre[i - 1])        \* the nested def follows the prelude
                ELSE (IF FileOf(i) = "A" THEN PreA ELSE PreU) + 1 + LinesBefore(i, i - 1)
NestStart(i) == PreStart(i) + SumPre(pre[i]) + (IF HasChild(i) THEN FLen(i + 1) ELSE 0)
RetLine(i)   == Start(i) + FLen(i) - 1                           \* the function's last line: `return ..`
HdrLine(i, q) == NestStart(i) + SumBefore(SubSeq(nest[i], 1, q - 1)) + HdrOff(nest[i][q])
BodyStart(i) == NestStart(i) + SumBefore(nest[i])
StmtLine(i)  == IF i < N THEN BodyStart(i)
                ELSE IF FailOnHdr THEN BodyStart(i) + 7 + SumAfter(nest[i])
                ELSE BodyStart(i) + k - 1
PathCtx(i)   == IF i = N /\ FailOnHdr THEN <<>> ELSE nest[i]

(* ------------------------------------------------------------------------ *)
(* Scopes.  What OriginResolver walks: the statements of a conversion unit  *)
(* in textual order as events  def (a FunctionDef is entered: its own line  *)
(* is visited inside), stmt, lambda (a Lambda expression inside the         *)
(* statement visited last), end (the FunctionDef is left).  Listed: def     *)
(* lines, the first statement, prelude statements, compound headers, the    *)
(* call / the block of candidate statements, the final return.              *)
(* ------------------------------------------------------------------------ *)
PNames == <<"h1", "h2", "h3", "h4">>
Ev(e, n, l) == [e |-> e, name |-> n, line |-> l]
PreEv(kd, q, l) == CASE kd = "lam"    -> << Ev("stmt", "", l), Ev("lambda", "", l), Ev("stmt", "", l + 1) >>
                     [] kd = "def"    -> << Ev("def", PNames[q], l), Ev("stmt", "", l + 1), Ev("end", "", 0),
                                            Ev("stmt", "", l + 2) >>
                     [] kd = "deflam" -> << Ev("def", PNames[q], l), Ev("stmt", "", l + 1), Ev("lambda", "", l + 1),
                                            Ev("stmt", "", l + 2), Ev("end", "", 0), Ev("stmt", "", l + 3) >>
RECURSIVE PreEvs(_, _)
PreEvs(i, q) == IF q > Len(pre[i]) THEN <<>>
                ELSE PreEv(pre[i][q], q, PreStart(i) + SumPre(SubSeq(pre[i], 1, q - 1))) \o PreEvs(i, q + 1)
RECURSIVE FnEvents(_)
FnEvents(i) == << Ev("def", FnNames[i], DefLine(i)), Ev("stmt", "", DefLine(i) + 1) >>
               \o PreEvs(i, 1)
               \o (IF HasChild(i) THEN FnEvents(i + 1) ELSE <<>>)
               \o [q \in 1..Len(nest[i]) |-> Ev("stmt", "", HdrLine(i, q))]
               \o (IF i < N THEN << Ev("stmt", "", BodyStart(i)) >>
                   ELSE [q \in 1..7 |-> Ev("stmt", "", BodyStart(i) + q - 1)]
                        \o (IF tail = "hdr" THEN << Ev("stmt", "", BodyStart(i) + 7 + SumAfter(nest[i])) >> ELSE <<>>))
               \o << Ev("stmt", "", RetLine(i)), Ev("end", "", 0) >>
RECURSIVE EventsFrom(_)
(* the conversion units that are really converted, one after the other *)
EventsFrom(i) == IF i > N THEN <<>>
                 ELSE (IF Eff(i) /\ ~Nested(i)
                       THEN LET fe == FnEvents(i) fl == FileOf(i) IN
                            [x \in 1..Len(fe) |-> [e |-> fe[x].e, name |-> fe[x].name, line |-> fe[x].line, file |-> fl]]
                       ELSE <<>>) \o EventsFrom(i + 1)
Events == EventsFrom(1)
(* ------------------------------------------------------------------------ *)
(* Failure kinds                                                            *)
(*   init: "exc" = type.__init__ is Exception.__init__ (plain subclass),    *)
(*         "py"  = the class defines a Python __init__ of its own,           *)
(*         "c"   = C type with its own slot, "cinh" = user class without     *)
(*         __init__ deriving from such a C type (user classes deriving from  *)
(*         members of KNOWN_STRING_CONSTRUCTOR_ERRORS: VE0, VE2, RE1)        *)
(* ------------------------------------------------------------------------ *)
KindOf == IF k = 7 THEN (IF tail = "hdr" THEN "ZeroDivisionError" ELSE tail)
          ELSE <<"KeyError", "ZeroDivisionError", "TypeError", "IndexError", "AttributeError", "ValueError">>[k]
InitOf(kd)  == CASE kd = "UE" -> "exc"                       \* class UE(Exception): pass
                 [] kd \in {"CE", "VE2", "RE1"} -> "py"        \* own Python __init__: (a, b), (a, b), (a)
                 [] kd = "VE0" -> "cinh"                      \* class VE0(ValueError): pass - inherits the C slot
                 [] OTHER -> "c"
KnownStr(kd) == kd \in {"TypeError", "AttributeError", "ValueError"}   \* `type in KNOWN_STRING_CONSTRUCTOR_ERRORS`:
                                                                       \* identity, NOT subclass - VE0/VE2/RE1 are not in
MsgOf(kd)   == CASE kd \in {"UE", "VE0"} -> "boom" [] kd \in {"CE", "VE2"} -> "1-2" [] kd = "RE1" -> "<x>"
                 [] OTHER -> "?"                              \* "?": CPython's text
ViaOverload == k \in {3, 6}            \* len(..) / int(..): ag__.converted_call -> py_builtins overload

(* ------------------------------------------------------------------------ *)
(* Tracebacks                                                               *)
(* ------------------------------------------------------------------------ *)
Fr(f, n, l) == [file |-> f, fn |-> n, line |-> l]
GLine(l) == 1000 + l                    \* the generated line that executes original line l
Orig == [i \in 1..N |-> Fr(FileOf(i), FnNames[i], StmtLine(i))]   \* user frames, outermost first

RECURSIVE GFrames(_, _, _)
(* frames of converted fi from nest position q on; name = function the frame is in *)
GFrames(i, q, name) ==
  IF q > Len(PathCtx(i)) THEN << Fr(GFiles[Unit(i)], name, GLine(StmtLine(i))) >>
  ELSE LET c == PathCtx(i)[q] IN
       IF Lowered(c)
       THEN << Fr(GFiles[Unit(i)], name, GLine(HdrLine(i, q))),
               Fr("INT", OpFn(c), 0), Fr("INT", "_py_" \o OpFn(c), 0) >> \o GFrames(i, q + 1, BodyFn(c))
       ELSE GFrames(i, q + 1, name)
Seg(i) == IF Eff(i) THEN GFrames(i, 1, IF Nested(i) THEN FnNames[i] ELSE "ag__fn")
          ELSE << Fr(FileOf(i), FnNames[i], StmtLine(i)) >>
Link(i) == LET w == IF chain[i + 1] = "dnc" THEN << Fr("API", "wrapper", 0) >> ELSE <<>> IN
           IF Nested(i + 1)          \* a local def of generated code is an autograph artifact: called as it is
           THEN (IF Eff(i) THEN << Fr("API", "converted_call", 0), Fr("API", "_call_unconverted", 0) >> ELSE <<>>)
           ELSE IF Eff(i) /\ Eff(i + 1) THEN << Fr("API", "converted_call", 0) >>
           ELSE IF Eff(i) THEN << Fr("API", "converted_call", 0), Fr("API", "_call_unconverted", 0) >> \o w
           ELSE w
Below == IF Eff(N) /\ ViaOverload
         THEN << Fr("API", "converted_call", 0), Fr("INT", "overload", 0), Fr("INT", "_py_overload", 0) >>
         ELSE <<>>
RECURSIVE TbFrom(_)
TbFrom(i) == Seg(i) \o (IF i < N THEN Link(i) \o TbFrom(i + 1) ELSE Below)
(* source map of fi restricted to the generated lines that can be on a traceback *)
StmtLines(i) == {StmtLine(i)} \cup {HdrLine(i, q) : q \in {x \in 1..Len(PathCtx(i)) : Lowered(PathCtx(i)[x])}}
NameOf(f, l) == (CHOOSE e \in names : e.file = f /\ e.line = l).fn     \* as OriginResolver attached it
(* the source map of the conversion unit of (module-level) fi: its own statements and those of the defs nested in it *)
MapOf(i) == UNION {{[gfile |-> GFiles[i], gline |-> GLine(l), file |-> FileOf(q), fn |-> NameOf(FileOf(q), l), line |-> l] :
                      l \in StmtLines(q)} : q \in {x \in i..N : Unit(x) = i}}
RECURSIVE LastEff(_)
LastEff(i) == IF i < N /\ Eff(i + 1) THEN LastEff(i + 1) ELSE i

(* ------------------------------------------------------------------------ *)
(* frames mode: all sequences over four frame classes                       *)
(* ------------------------------------------------------------------------ *)
Classes == {"M", "U", "C", "I"}     \* mapped, unmapped user, converter file, other internal
ClassFrame(c, p) == CASE c = "M" -> Fr("G1", "gen", GLine(p)) [] c = "U" -> Fr("U", "user", p)
                      [] c = "C" -> Fr("API", "api", p)       [] OTHER  -> Fr("INT", "internal", p)
FrameSeqs == UNION {[1..n -> Classes] : n \in 0..MaxFrames}
FramesMap == {[gfile |-> "G1", gline |-> GLine(p), file |-> "U", fn |-> "orig", line |-> 100 + p] : p \in 1..MaxFrames}

(* ------------------------------------------------------------------------ *)
(* State machine                                                            *)
(* ------------------------------------------------------------------------ *)
NoMeta == [set |-> FALSE, stack |-> <<>>, name |-> "", text |-> ""]
NoOut  == [type |-> "", name |-> "", text |-> "", stack |-> <<>>]

Init == /\ chain = <<"conv">> /\ nest = << <<>> >> /\ pre = << <<>> >> /\ tail = "UE" /\ k = 1 /\ prior = FALSE
        /\ evs = <<>> /\ ridx = 1 /\ fstack = <<>> /\ names = {}
        /\ lvl = 0 /\ j = 0 /\ res = <<>> /\ meta = NoMeta /\ scans = <<>> /\ out = NoOut
        /\ IF Mode = "frames"
           THEN \E s \in FrameSeqs : /\ tb = [p \in 1..Len(s) |-> ClassFrame(s[p], p)]
                                     /\ map = {e \in FramesMap : \E p \in 1..Len(s) : s[p] = "M" /\ e.gline = GLine(p)}
                                     /\ pc = "startscan"
           ELSE tb = <<>> /\ map = {} /\ pc = "build"

(* ---- building the scenario --------------------------------------------- *)
AddCtx(c) == /\ pc = "build"
             /\ \/ Len(nest[N]) < MaxNestCaller                       \* fN may still become a caller
                \/ N >= MinChain /\ Len(nest[N]) < MaxNestInner      \* or the innermost function
             /\ nest' = [nest EXCEPT ![N] = Append(@, c)]
             /\ UNCHANGED <<pc, chain, pre, tail, k, prior, lvl, tb, map, j, res, meta, scans, out, ridx, fstack, names, evs>>
(* prelude items are chosen before the nest of the function (one order of construction per program) *)
AddPre(kd) == /\ pc = "build" /\ nest[N] = <<>> /\ Len(pre[N]) < MaxPre
              /\ pre' = [pre EXCEPT ![N] = Append(@, kd)]
              /\ UNCHANGED <<pc, chain, nest, tail, k, prior, lvl, tb, map, j, res, meta, scans, out, ridx, fstack, names, evs>>
AddLink(kd) == /\ pc = "build" /\ N < MaxChain
               /\ Len(nest[N]) <= MaxNestCaller /\ \A q \in 1..Len(nest[N]) : nest[N][q] \in CallerCtxs
               /\ chain' = Append(chain, kd) /\ nest' = Append(nest, <<>>) /\ pre' = Append(pre, <<>>)
               /\ UNCHANGED <<pc, tail, k, prior, lvl, tb, map, j, res, meta, scans, out, ridx, fstack, names, evs>>
Seal(t, kk, pr) == /\ pc = "build" /\ N >= MinChain
                   /\ Len(nest[N]) >= MinNestInner /\ Len(nest[N]) <= MaxNestInner
                   /\ \A q \in 1..Len(nest[N]) : nest[N][q] \in InnerCtxs
                   \* the history bit only where the statement's line can be a compound header executing unconverted
                   /\ pr => (t = "hdr" /\ kk = 7 /\ ~Eff(N) /\ ~Nested(N))
                   /\ tail' = t /\ k' = kk /\ prior' = pr /\ pc' = "parse"
                   /\ UNCHANGED <<chain, nest, pre, lvl, tb, map, j, res, meta, scans, out, ridx, fstack, names, evs>>

(* ---- origin_info.OriginResolver.visit over every conversion unit ----------------- *)
(*   entered_function = False                                                          *)
(*   if isinstance(node, FunctionDef): entered_function = True; stack.append(name)     *)
(*   _attach_origin_info(node)   -> function_name = stack[-1].name                     *)
(*   generic_visit(node)                                                               *)
(*   if entered_function: stack.pop()                                                  *)
Top(s) == s[Len(s)]
Parse == /\ pc = "parse" /\ evs' = Events /\ pc' = "resolve"        \* the parsed source of every unit, in textual order
         /\ UNCHANGED <<chain, nest, pre, tail, k, prior, ridx, fstack, names, lvl, tb, map, j, res, meta, scans, out>>
ResolveDef == /\ pc = "resolve" /\ ridx <= Len(evs) /\ evs[ridx].e = "def"
              /\ fstack' = Append(fstack, evs[ridx].name)
              /\ names' = names \cup {[file |-> evs[ridx].file, line |-> evs[ridx].line, fn |-> evs[ridx].name]}
              /\ ridx' = ridx + 1
              /\ UNCHANGED <<pc, chain, nest, pre, tail, k, prior, lvl, tb, map, j, res, meta, scans, out, evs>>
ResolveStmt == /\ pc = "resolve" /\ ridx <= Len(evs) /\ evs[ridx].e = "stmt"
               /\ names' = names \cup {[file |-> evs[ridx].file, line |-> evs[ridx].line, fn |-> Top(fstack)]}
               /\ ridx' = ridx + 1
               /\ UNCHANGED <<pc, chain, nest, pre, tail, k, prior, fstack, lvl, tb, map, j, res, meta, scans, out, evs>>
(* a Lambda is no FunctionDef: no scope is entered; the expression stays part of its statement *)
ResolveLambda == /\ pc = "resolve" /\ ridx <= Len(evs) /\ evs[ridx].e = "lambda"
                 /\ ridx' = ridx + 1
                 /\ UNCHANGED <<pc, chain, nest, pre, tail, k, prior, fstack, names, lvl, tb, map, j, res, meta, scans, out, evs>>
ResolveEnd == /\ pc = "resolve" /\ ridx <= Len(evs) /\ evs[ridx].e = "end"
              /\ fstack' = SubSeq(fstack, 1, Len(fstack) - 1)
              /\ ridx' = ridx + 1
              /\ UNCHANGED <<pc, chain, nest, pre, tail, k, prior, names, lvl, tb, map, j, res, meta, scans, out, evs>>
ResolveDone == /\ pc = "resolve" /\ ridx > Len(evs) /\ pc' = "raise"
               /\ UNCHANGED <<chain, nest, pre, tail, k, prior, ridx, fstack, names, lvl, tb, map, j, res, meta, scans, out, evs>>

(* ---- the statement fails; the exception unwinds to the innermost converted_call that *)
(* ---- catches: the one that called the module-level function of the unit             *)
Raise == /\ pc = "raise" /\ lvl' = Unit(LastEff(1)) /\ pc' = "catch"
         /\ UNCHANGED <<chain, nest, pre, tail, k, prior, tb, map, j, res, meta, scans, out, ridx, fstack, names, evs>>

(* converted_call: except Exception as e: _attach_error_metadata(e, converted_f)   *)
(*   cause_tb = traceback.extract_tb(sys.exc_info()[2])[1:]  - the [1:] drops the  *)
(*   converted_call frame itself; source_map = f.ag_source_map                     *)
Catch == /\ pc = "catch" /\ tb' = TbFrom(lvl) /\ map' = MapOf(lvl) /\ pc' = "startscan"
         /\ UNCHANGED <<chain, nest, pre, tail, k, prior, lvl, j, res, meta, scans, out, ridx, fstack, names, evs>>

(* ---- _stack_trace_inside_mapped_code(tb, source_map, converter_filename) ------- *)
StartScan == /\ pc = "startscan" /\ res' = <<>> /\ j' = Len(tb) /\ pc' = "scan"      \* for .. in reversed(tb)
             /\ UNCHANGED <<chain, nest, pre, tail, k, prior, lvl, tb, map, meta, scans, out, ridx, fstack, names, evs>>
IsMapped(fr) == \E e \in map : e.gfile = fr.file /\ e.gline = fr.line
Translate(fr) == LET e == CHOOSE e \in map : e.gfile = fr.file /\ e.gline = fr.line IN
                 [file |-> e.file, fn |-> e.fn, line |-> e.line, conv |-> TRUE, allow |-> FALSE]
Finished == IF Mode = "frames" THEN "done" ELSE "attach"
ScanMapped == /\ pc = "scan" /\ j >= 1 /\ IsMapped(tb[j])             \* if loc in source_map: append; break
              /\ res' = Append(res, Translate(tb[j])) /\ pc' = Finished
              /\ UNCHANGED <<chain, nest, pre, tail, k, prior, lvl, tb, map, j, meta, scans, out, ridx, fstack, names, evs>>
ScanConverter == /\ pc = "scan" /\ j >= 1 /\ ~IsMapped(tb[j]) /\ tb[j].file = "API"   \* filename == converter_filename
                 /\ res' = IF res = <<>> THEN res
                           ELSE [res EXCEPT ![Len(res)] = [@ EXCEPT !.conv = FALSE, !.allow = TRUE]]
                 /\ j' = j - 1                                                        \* continue
                 /\ UNCHANGED <<pc, chain, nest, pre, tail, k, prior, lvl, tb, map, meta, scans, out, ridx, fstack, names, evs>>
ScanOther == /\ pc = "scan" /\ j >= 1 /\ ~IsMapped(tb[j]) /\ tb[j].file # "API"
             /\ res' = Append(res, [file |-> tb[j].file, fn |-> tb[j].fn, line |-> tb[j].line,
                                    conv |-> FALSE, allow |-> FALSE])
             /\ j' = j - 1
             /\ UNCHANGED <<pc, chain, nest, pre, tail, k, prior, lvl, tb, map, meta, scans, out, ridx, fstack, names, evs>>
ScanEnd == /\ pc = "scan" /\ j = 0 /\ pc' = Finished                                   \* loop exhausted
           /\ UNCHANGED <<chain, nest, pre, tail, k, prior, lvl, tb, map, j, res, meta, scans, out, ridx, fstack, names, evs>>

(* ---- ErrorMetadataBase.__init__ ------------------------------------------------ *)
Attach == /\ pc = "attach"
          /\ meta' = IF ~meta.set
                     THEN [set |-> TRUE, stack |-> res, name |-> KindOf, text |-> MsgOf(KindOf)]
                     ELSE [meta EXCEPT !.stack = meta.stack \o << res[Len(res)] >>]    \* daisy chain
          /\ scans' = Append(scans, [lvl |-> lvl, tb |-> tb, map |-> map, res |-> res])
          /\ lvl' = IF lvl > 1 THEN Unit(lvl - 1) ELSE 0
          /\ pc' = IF lvl > 1 THEN "catch" ELSE "wrapper"                              \* re-raise to the caller
          /\ UNCHANGED <<chain, nest, pre, tail, k, prior, tb, map, j, res, out, ridx, fstack, names, evs>>

(* ---- convert().wrapper: raise e.ag_error_metadata.to_exception(e) --------------- *)
CreateException(kd) ==
  LET first  == IF InitOf(kd) = "exc" THEN "same" ELSE "none"          \* __init__ is Exception.__init__
      second == IF KnownStr(kd) THEN "same"                            \* in KNOWN_STRING_CONSTRUCTOR_ERRORS
                ELSE IF kd = "KeyError" THEN "keysub"                  \* MultilineMessageKeyError
                ELSE first
  IN IF second # "none" THEN second ELSE "staging"                     \* _ErrorMetadata: StagingError
Wrapper == /\ pc = "wrapper"
           /\ out' = [type |-> CreateException(KindOf), name |-> meta.name, text |-> meta.text, stack |-> meta.stack]
           /\ pc' = "done"
           /\ UNCHANGED <<chain, nest, pre, tail, k, prior, lvl, tb, map, j, res, meta, scans, ridx, fstack, names, evs>>

Next == \/ \E c \in InnerCtxs \cup CallerCtxs : AddCtx(c)
        \/ \E kd \in Pres : AddPre(kd)
        \/ \E kd \in Links : AddLink(kd)
        \/ \E t \in Tails, kk \in Ks, pr \in BOOLEAN : Seal(t, kk, pr)
        \/ Parse \/ ResolveDef \/ ResolveStmt \/ ResolveLambda \/ ResolveEnd \/ ResolveDone
        \/ Raise \/ Catch \/ StartScan \/ ScanMapped \/ ScanConverter \/ ScanOther \/ ScanEnd
        \/ Attach \/ Wrapper
Spec == Init /\ [][Next]_vars

(* ------------------------------------------------------------------------ *)
(* The property clauses, on the model                                       *)
(* ------------------------------------------------------------------------ *)
IsUser(f) == f.file \in {"U", "A"}
Triple(f) == <<f.file, f.fn, f.line>>
Reverse(s) == [p \in 1..Len(s) |-> s[Len(s) + 1 - p]]
UserStack == SelectSeq(out.stack, IsUser)             \* innermost first, as translated_stack is
RECURSIVE IsSubseq(_, _)
IsSubseq(a, b) == IF a = <<>> THEN TRUE ELSE IF b = <<>> THEN FALSE
                  ELSE IF Head(a) = Head(b) THEN IsSubseq(Tail(a), Tail(b)) ELSE IsSubseq(a, Tail(b))
Done == Mode = "scenario" /\ pc = "done"

InnermostNamed == Done => /\ UserStack # <<>>
                          /\ Triple(UserStack[1]) = Triple(Orig[N])      \* file, function, line of the failing statement
FramesOfOriginal == Done => IsSubseq([p \in 1..Len(UserStack) |-> Triple(Reverse(UserStack)[p])],
                                     [p \in 1..N |-> Triple(Orig[p])])    \* same frames, same order
(* one entry per separately converted function on the call path: the frame of the unit (the function or a def nested *)
(* in it) that the call path leaves the unit from                                                                    *)
UnitNames(i) == {FnNames[q] : q \in {x \in i..N : Unit(x) = i}}
OnePerConverted == Done => \A i \in 1..N : (Eff(i) /\ ~Nested(i)) =>
                     Cardinality({p \in 1..Len(out.stack) : out.stack[p].fn \in UnitNames(i) /\ IsUser(out.stack[p])}) = 1
(* the resolver leaves every function it entered; every statement got exactly one name *)
ScopesBalanced == pc = "raise" =>
                     /\ fstack = <<>>
                     /\ \A a, b \in names : (a.file = b.file /\ a.line = b.line) => a.fn = b.fn
(* the three-valued type rule *)
Demanded(kd) == CASE InitOf(kd) = "exc" -> {"same"}
                  [] InitOf(kd) = "py"  -> {"staging"}          \* defines an initialiser of its own
                  [] OTHER              -> IF kd = "KeyError" THEN {"same", "keysub", "staging"}
                                           ELSE {"same", "staging"}   \* "c" and "cinh": undecidable from the statement
TypeRule == Done => out.type \in Demanded(KindOf)
MessageKept == Done => out.name = KindOf /\ out.text = MsgOf(KindOf)
ScanAssert == pc = "scan" /\ res # <<>> => ~res[Len(res)].conv        \* the `assert not prev.is_converted`

(* ------------------------------------------------------------------------ *)
(* Expected observations for the harness (always-true reporting invariant)  *)
(* ------------------------------------------------------------------------ *)
SetToList(S) == LET RECURSIVE L(_)
                    L(T) == IF T = {} THEN <<>> ELSE LET x == CHOOSE x \in T : TRUE IN <<x>> \o L(T \ {x})
                IN L(S)
Expect ==
  pc = "done" =>
    IF Mode = "frames"
    THEN PrintT(ToJson([mode |-> "frames", tb |-> tb, map |-> SetToList(map), res |-> res]))
    ELSE PrintT(ToJson([mode |-> "scenario", chain |-> chain, nest |-> nest, pre |-> pre, tail |-> tail, k |-> k, prior |-> prior,
                        unit |-> [i \in 1..N |-> Unit(i)], names |-> SetToList(names),
                        kind |-> KindOf, msg |-> MsgOf(KindOf), init |-> InitOf(KindOf),
                        type |-> out.type, demanded |-> SetToList(Demanded(KindOf)),
                        orig |-> Orig, stack |-> out.stack,
                        conv |-> [i \in 1..N |-> Eff(i)],
                        deflines |-> [i \in 1..N |-> DefLine(i)],
                        full |-> TbFrom(1),
                        scans |-> [p \in 1..Len(scans) |-> [lvl |-> scans[p].lvl, tb |-> scans[p].tb,
                                                           map |-> SetToList(scans[p].map), res |-> scans[p].res]]]))
=============================================================================
