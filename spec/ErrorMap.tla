------------------------------ MODULE ErrorMap ------------------------------
(***************************************************************************)
(* Property C12 - errors in converted code are reported at the original    *)
(* source location.                                                        *)
(*                                                                         *)
(* The module models                                                       *)
(*  (a) the scenario space: a call chain f1 -> f2 -> .. -> fN (N <= 4),    *)
(*      f1 being the function handed to malt.convert, every further link   *)
(*      one of  conv  (plain user function: converted recursively),        *)
(*              dnc   (decorated with do_not_convert),                     *)
(*              allow (lives in an allow-listed module);                   *)
(*      each function is a straight nest of compound statements (if body,  *)
(*      else branch, for, while, with, try body, finally body; one         *)
(*      statement per source line) around one statement: the call of the   *)
(*      next function, or - in fN - a block of seven statements of which   *)
(*      the input k selects the one that fails;                            *)
(*  (b) the layout of the rendered source files (which line every          *)
(*      statement is on), hence the original function's own traceback;     *)
(*  (c) the traceback of the *converted* run as a sequence of abstract     *)
(*      frames [file, fn, line], file in U/A (user module / allow-listed   *)
(*      user module), G1..G4 (generated module of fi), API (malt/impl/     *)
(*      api.py, the `converter_filename`), INT (other malt internals);     *)
(*      the source map of fi as a set of entries generated line -> origin; *)
(*  (d) the error rewriting, transcribed action for action:                *)
(*        Catch        converted_call `except Exception` +                 *)
(*                     _attach_error_metadata (cause_tb = extract_tb[1:])  *)
(*        ScanMapped / ScanConverter / ScanOther / ScanEnd                 *)
(*                     the loop of _stack_trace_inside_mapped_code, one    *)
(*                     action per iteration and branch                     *)
(*        Attach       ErrorMetadataBase.__init__ (daisy chaining)         *)
(*        Wrapper      convert().wrapper -> to_exception ->                *)
(*                     _ErrorMetadata.create_exception / ErrorMetadataBase *)
(*                     .create_exception (type rule)                       *)
(* The property clauses are the invariants at the end of the module.       *)
(* Mode "frames" runs only the scan on every sequence of <= MaxFrames      *)
(* frames over the four frame classes (differential test of the            *)
(* transcription against the real function).                               *)
(* Deliberate deviations: ag_pass_through, the PyCTError/StagingError      *)
(* first branch of _ErrorMetadata.create_exception (only reachable with    *)
(* nested convert wrappers) and get_message's text layout are not modelled;*)
(* the message is the pair <<type name, text>>.                            *)
(***************************************************************************)
EXTENDS Naturals, Sequences, FiniteSets, TLC, Json

CONSTANTS Mode,            \* "scenario" | "frames"
          MinChain, MaxChain,
          MaxNestCaller, CallerCtxs,
          MinNestInner, MaxNestInner, InnerCtxs,
          Tails, Links,
          PreU, PreA,      \* number of preamble lines of the two rendered files
          MaxFrames

VARIABLES pc, chain, nest, tail, k, prior,   \* the scenario
          lvl, tb, map, j, res,              \* one run of the scan
          meta, scans, out
vars == <<pc, chain, nest, tail, k, prior, lvl, tb, map, j, res, meta, scans, out>>

Ctxs == {"if", "else", "for", "while", "with", "try", "fin"}
FnNames == <<"f1", "f2", "f3", "f4">>
GFiles  == <<"G1", "G2", "G3", "G4">>

(* ------------------------------------------------------------------------ *)
(* Layout of the rendered source (mirrors the templates of vf/c12_render.py; *)
(* validated against CPython's traceback of the unconverted run)            *)
(* ------------------------------------------------------------------------ *)
Before(c)  == CASE c \in {"if", "for", "with", "try"} -> 1
                [] c \in {"else", "while", "fin"}      -> 3
After(c)   == IF c = "try" THEN 2 ELSE 0
HdrOff(c)  == IF c = "while" THEN 1 ELSE 0
Lowered(c) == c \in {"if", "else", "for", "while"}    \* rewritten into ag__.*_stmt(body functions)
BodyFn(c)  == CASE c = "if" -> "if_body" [] c = "else" -> "else_body" [] OTHER -> "loop_body"
OpFn(c)    == CASE c \in {"if", "else"} -> "if_stmt" [] c = "for" -> "for_stmt" [] OTHER -> "while_stmt"

RECURSIVE SumBefore(_), SumAfter(_)
SumBefore(s) == IF s = <<>> THEN 0 ELSE Before(Head(s)) + SumBefore(Tail(s))
SumAfter(s)  == IF s = <<>> THEN 0 ELSE After(Head(s)) + SumAfter(Tail(s))

N == Len(chain)
Eff(i) == \A q \in 1..i : chain[q] = "conv"          \* fi runs converted
FileOf(i) == IF chain[i] = "allow" THEN "A" ELSE "U"
Dec(i) == IF chain[i] = "dnc" THEN 1 ELSE 0           \* decorator line
FailOnHdr == tail = "hdr" /\ k = 7
FLen(i) == Dec(i) + 2 + SumBefore(nest[i]) + (IF i = N THEN 7 ELSE 1) + SumAfter(nest[i])
           + (IF i = N /\ tail = "hdr" THEN 2 ELSE 0) + 1
RECURSIVE LinesBefore(_, _)
LinesBefore(i, q) == IF q = 0 THEN 0
                     ELSE (IF FileOf(q) = FileOf(i) THEN FLen(q) ELSE 0) + LinesBefore(i, q - 1)
Start(i)     == (IF FileOf(i) = "A" THEN PreA ELSE PreU) + 1 + LinesBefore(i, i - 1)
DefLine(i)   == Start(i) + Dec(i)
NestStart(i) == DefLine(i) + 2
HdrLine(i, q) == NestStart(i) + SumBefore(SubSeq(nest[i], 1, q - 1)) + HdrOff(nest[i][q])
BodyStart(i) == NestStart(i) + SumBefore(nest[i])
StmtLine(i)  == IF i < N THEN BodyStart(i)
                ELSE IF FailOnHdr THEN BodyStart(i) + 7 + SumAfter(nest[i])
                ELSE BodyStart(i) + k - 1
PathCtx(i)   == IF i = N /\ FailOnHdr THEN <<>> ELSE nest[i]

(* ------------------------------------------------------------------------ *)
(* Failure kinds                                                            *)
(*   init: "exc" = type.__init__ is Exception.__init__ (plain subclass),    *)
(*         "py"  = the class defines a Python __init__ of its own,           *)
(*         "c"   = C type with its own slot, "cinh" = user class without     *)
(*         __init__ deriving from such a C type (user classes deriving from  *)
(*         members of KNOWN_STRING_CONSTRUCTOR_ERRORS: VE0, VE2, RE1)        *)
(* ------------------------------------------------------------------------ *)
KindOf == IF k = 7 THEN (IF tail = "hdr" THEN "ZeroDivisionError" ELSE tail)
          ELSE <<"KeyError", "ZeroDivisionError", "TypeError", "IndexError", "AttributeError", "ValueError">>[k]
InitOf(kd)  == CASE kd = "UE" -> "exc"                       \* class UE(Exception): pass
                 [] kd \in {"CE", "VE2", "RE1"} -> "py"        \* own Python __init__: (a, b), (a, b), (a)
                 [] kd = "VE0" -> "cinh"                      \* class VE0(ValueError): pass - inherits the C slot
                 [] OTHER -> "c"
KnownStr(kd) == kd \in {"TypeError", "AttributeError", "ValueError"}   \* `type in KNOWN_STRING_CONSTRUCTOR_ERRORS`:
                                                                       \* identity, NOT subclass - VE0/VE2/RE1 are not in
MsgOf(kd)   == CASE kd \in {"UE", "VE0"} -> "boom" [] kd \in {"CE", "VE2"} -> "1-2" [] kd = "RE1" -> "<x>"
                 [] OTHER -> "?"                              \* "?": CPython's text
ViaOverload == k \in {3, 6}            \* len(..) / int(..): ag__.converted_call -> py_builtins overload

(* ------------------------------------------------------------------------ *)
(* Tracebacks                                                               *)
(* ------------------------------------------------------------------------ *)
Fr(f, n, l) == [file |-> f, fn |-> n, line |-> l]
GLine(l) == 1000 + l                    \* the generated line that executes original line l
Orig == [i \in 1..N |-> Fr(FileOf(i), FnNames[i], StmtLine(i))]   \* user frames, outermost first

RECURSIVE GFrames(_, _, _)
(* frames of converted fi from nest position q on; name = function the frame is in *)
GFrames(i, q, name) ==
  IF q > Len(PathCtx(i)) THEN << Fr(GFiles[i], name, GLine(StmtLine(i))) >>
  ELSE LET c == PathCtx(i)[q] IN
       IF Lowered(c)
       THEN << Fr(GFiles[i], name, GLine(HdrLine(i, q))),
               Fr("INT", OpFn(c), 0), Fr("INT", "_py_" \o OpFn(c), 0) >> \o GFrames(i, q + 1, BodyFn(c))
       ELSE GFrames(i, q + 1, name)
Seg(i) == IF Eff(i) THEN GFrames(i, 1, "ag__fn") ELSE << Fr(FileOf(i), FnNames[i], StmtLine(i)) >>
Link(i) == LET w == IF chain[i + 1] = "dnc" THEN << Fr("API", "wrapper", 0) >> ELSE <<>> IN
           IF Eff(i) /\ Eff(i + 1) THEN << Fr("API", "converted_call", 0) >>
           ELSE IF Eff(i) THEN << Fr("API", "converted_call", 0), Fr("API", "_call_unconverted", 0) >> \o w
           ELSE w
Below == IF Eff(N) /\ ViaOverload
         THEN << Fr("API", "converted_call", 0), Fr("INT", "overload", 0), Fr("INT", "_py_overload", 0) >>
         ELSE <<>>
RECURSIVE TbFrom(_)
TbFrom(i) == Seg(i) \o (IF i < N THEN Link(i) \o TbFrom(i + 1) ELSE Below)
(* source map of fi restricted to the generated lines that can be on a traceback *)
StmtLines(i) == {StmtLine(i)} \cup {HdrLine(i, q) : q \in {x \in 1..Len(PathCtx(i)) : Lowered(PathCtx(i)[x])}}
MapOf(i) == {[gfile |-> GFiles[i], gline |-> GLine(l), file |-> FileOf(i), fn |-> FnNames[i], line |-> l] :
               l \in StmtLines(i)}
RECURSIVE LastEff(_)
LastEff(i) == IF i < N /\ Eff(i + 1) THEN LastEff(i + 1) ELSE i

(* ------------------------------------------------------------------------ *)
(* frames mode: all sequences over four frame classes                       *)
(* ------------------------------------------------------------------------ *)
Classes == {"M", "U", "C", "I"}     \* mapped, unmapped user, converter file, other internal
ClassFrame(c, p) == CASE c = "M" -> Fr("G1", "gen", GLine(p)) [] c = "U" -> Fr("U", "user", p)
                      [] c = "C" -> Fr("API", "api", p)       [] OTHER  -> Fr("INT", "internal", p)
FrameSeqs == UNION {[1..n -> Classes] : n \in 0..MaxFrames}
FramesMap == {[gfile |-> "G1", gline |-> GLine(p), file |-> "U", fn |-> "orig", line |-> 100 + p] : p \in 1..MaxFrames}

(* ------------------------------------------------------------------------ *)
(* State machine                                                            *)
(* ------------------------------------------------------------------------ *)
NoMeta == [set |-> FALSE, stack |-> <<>>, name |-> "", text |-> ""]
NoOut  == [type |-> "", name |-> "", text |-> "", stack |-> <<>>]

Init == /\ chain = <<"conv">> /\ nest = << <<>> >> /\ tail = "UE" /\ k = 1 /\ prior = FALSE
        /\ lvl = 0 /\ j = 0 /\ res = <<>> /\ meta = NoMeta /\ scans = <<>> /\ out = NoOut
        /\ IF Mode = "frames"
           THEN \E s \in FrameSeqs : /\ tb = [p \in 1..Len(s) |-> ClassFrame(s[p], p)]
                                     /\ map = {e \in FramesMap : \E p \in 1..Len(s) : s[p] = "M" /\ e.gline = GLine(p)}
                                     /\ pc = "startscan"
           ELSE tb = <<>> /\ map = {} /\ pc = "build"

(* ---- building the scenario --------------------------------------------- *)
AddCtx(c) == /\ pc = "build"
             /\ \/ Len(nest[N]) < MaxNestCaller                       \* fN may still become a caller
                \/ N >= MinChain /\ Len(nest[N]) < MaxNestInner      \* or the innermost function
             /\ nest' = [nest EXCEPT ![N] = Append(@, c)]
             /\ UNCHANGED <<pc, chain, tail, k, prior, lvl, tb, map, j, res, meta, scans, out>>
AddLink(kd) == /\ pc = "build" /\ N < MaxChain
               /\ Len(nest[N]) <= MaxNestCaller /\ \A q \in 1..Len(nest[N]) : nest[N][q] \in CallerCtxs
               /\ chain' = Append(chain, kd) /\ nest' = Append(nest, <<>>)
               /\ UNCHANGED <<pc, tail, k, prior, lvl, tb, map, j, res, meta, scans, out>>
Seal(t, kk, pr) == /\ pc = "build" /\ N >= MinChain
                   /\ Len(nest[N]) >= MinNestInner /\ Len(nest[N]) <= MaxNestInner
                   /\ \A q \in 1..Len(nest[N]) : nest[N][q] \in InnerCtxs
                   \* the history bit only where the statement's line can be a compound header executing unconverted
                   /\ pr => (t = "hdr" /\ kk = 7 /\ ~Eff(N))
                   /\ tail' = t /\ k' = kk /\ prior' = pr /\ pc' = "raise"
                   /\ UNCHANGED <<chain, nest, lvl, tb, map, j, res, meta, scans, out>>

(* ---- the statement fails; the exception unwinds to the innermost converted_call *)
Raise == /\ pc = "raise" /\ lvl' = LastEff(1) /\ pc' = "catch"
         /\ UNCHANGED <<chain, nest, tail, k, prior, tb, map, j, res, meta, scans, out>>

(* converted_call: except Exception as e: _attach_error_metadata(e, converted_f)   *)
(*   cause_tb = traceback.extract_tb(sys.exc_info()[2])[1:]  - the [1:] drops the  *)
(*   converted_call frame itself; source_map = f.ag_source_map                     *)
Catch == /\ pc = "catch" /\ tb' = TbFrom(lvl) /\ map' = MapOf(lvl) /\ pc' = "startscan"
         /\ UNCHANGED <<chain, nest, tail, k, prior, lvl, j, res, meta, scans, out>>

(* ---- _stack_trace_inside_mapped_code(tb, source_map, converter_filename) ------- *)
StartScan == /\ pc = "startscan" /\ res' = <<>> /\ j' = Len(tb) /\ pc' = "scan"      \* for .. in reversed(tb)
             /\ UNCHANGED <<chain, nest, tail, k, prior, lvl, tb, map, meta, scans, out>>
IsMapped(fr) == \E e \in map : e.gfile = fr.file /\ e.gline = fr.line
Translate(fr) == LET e == CHOOSE e \in map : e.gfile = fr.file /\ e.gline = fr.line IN
                 [file |-> e.file, fn |-> e.fn, line |-> e.line, conv |-> TRUE, allow |-> FALSE]
Finished == IF Mode = "frames" THEN "done" ELSE "attach"
ScanMapped == /\ pc = "scan" /\ j >= 1 /\ IsMapped(tb[j])             \* if loc in source_map: append; break
              /\ res' = Append(res, Translate(tb[j])) /\ pc' = Finished
              /\ UNCHANGED <<chain, nest, tail, k, prior, lvl, tb, map, j, meta, scans, out>>
ScanConverter == /\ pc = "scan" /\ j >= 1 /\ ~IsMapped(tb[j]) /\ tb[j].file = "API"   \* filename == converter_filename
                 /\ res' = IF res = <<>> THEN res
                           ELSE [res EXCEPT ![Len(res)] = [@ EXCEPT !.conv = FALSE, !.allow = TRUE]]
                 /\ j' = j - 1                                                        \* continue
                 /\ UNCHANGED <<pc, chain, nest, tail, k, prior, lvl, tb, map, meta, scans, out>>
ScanOther == /\ pc = "scan" /\ j >= 1 /\ ~IsMapped(tb[j]) /\ tb[j].file # "API"
             /\ res' = Append(res, [file |-> tb[j].file, fn |-> tb[j].fn, line |-> tb[j].line,
                                    conv |-> FALSE, allow |-> FALSE])
             /\ j' = j - 1
             /\ UNCHANGED <<pc, chain, nest, tail, k, prior, lvl, tb, map, meta, scans, out>>
ScanEnd == /\ pc = "scan" /\ j = 0 /\ pc' = Finished                                   \* loop exhausted
           /\ UNCHANGED <<chain, nest, tail, k, prior, lvl, tb, map, j, res, meta, scans, out>>

(* ---- ErrorMetadataBase.__init__ ------------------------------------------------ *)
Attach == /\ pc = "attach"
          /\ meta' = IF ~meta.set
                     THEN [set |-> TRUE, stack |-> res, name |-> KindOf, text |-> MsgOf(KindOf)]
                     ELSE [meta EXCEPT !.stack = meta.stack \o << res[Len(res)] >>]    \* daisy chain
          /\ scans' = Append(scans, [lvl |-> lvl, tb |-> tb, map |-> map, res |-> res])
          /\ lvl' = lvl - 1
          /\ pc' = IF lvl > 1 THEN "catch" ELSE "wrapper"                              \* re-raise to the caller
          /\ UNCHANGED <<chain, nest, tail, k, prior, tb, map, j, res, out>>

(* ---- convert().wrapper: raise e.ag_error_metadata.to_exception(e) --------------- *)
CreateException(kd) ==
  LET first  == IF InitOf(kd) = "exc" THEN "same" ELSE "none"          \* __init__ is Exception.__init__
      second == IF KnownStr(kd) THEN "same"                            \* in KNOWN_STRING_CONSTRUCTOR_ERRORS
                ELSE IF kd = "KeyError" THEN "keysub"                  \* MultilineMessageKeyError
                ELSE first
  IN IF second # "none" THEN second ELSE "staging"                     \* _ErrorMetadata: StagingError
Wrapper == /\ pc = "wrapper"
           /\ out' = [type |-> CreateException(KindOf), name |-> meta.name, text |-> meta.text, stack |-> meta.stack]
           /\ pc' = "done"
           /\ UNCHANGED <<chain, nest, tail, k, prior, lvl, tb, map, j, res, meta, scans>>

Next == \/ \E c \in InnerCtxs \cup CallerCtxs : AddCtx(c)
        \/ \E kd \in Links : AddLink(kd)
        \/ \E t \in Tails, kk \in 1..7, pr \in BOOLEAN : Seal(t, kk, pr)
        \/ Raise \/ Catch \/ StartScan \/ ScanMapped \/ ScanConverter \/ ScanOther \/ ScanEnd
        \/ Attach \/ Wrapper
Spec == Init /\ [][Next]_vars

(* ------------------------------------------------------------------------ *)
(* The property clauses, on the model                                       *)
(* ------------------------------------------------------------------------ *)
IsUser(f) == f.file \in {"U", "A"}
Triple(f) == <<f.file, f.fn, f.line>>
Reverse(s) == [p \in 1..Len(s) |-> s[Len(s) + 1 - p]]
UserStack == SelectSeq(out.stack, IsUser)             \* innermost first, as translated_stack is
RECURSIVE IsSubseq(_, _)
IsSubseq(a, b) == IF a = <<>> THEN TRUE ELSE IF b = <<>> THEN FALSE
                  ELSE IF Head(a) = Head(b) THEN IsSubseq(Tail(a), Tail(b)) ELSE IsSubseq(a, Tail(b))
Done == Mode = "scenario" /\ pc = "done"

InnermostNamed == Done => /\ UserStack # <<>>
                          /\ Triple(UserStack[1]) = Triple(Orig[N])      \* file, function, line of the failing statement
FramesOfOriginal == Done => IsSubseq([p \in 1..Len(UserStack) |-> Triple(Reverse(UserStack)[p])],
                                     [p \in 1..N |-> Triple(Orig[p])])    \* same frames, same order
OnePerConverted == Done => \A i \in 1..N : Eff(i) =>
                     Cardinality({p \in 1..Len(out.stack) : out.stack[p].fn = FnNames[i] /\ IsUser(out.stack[p])}) = 1
(* the three-valued type rule *)
Demanded(kd) == CASE InitOf(kd) = "exc" -> {"same"}
                  [] InitOf(kd) = "py"  -> {"staging"}          \* defines an initialiser of its own
                  [] OTHER              -> IF kd = "KeyError" THEN {"same", "keysub", "staging"}
                                           ELSE {"same", "staging"}   \* "c" and "cinh": undecidable from the statement
TypeRule == Done => out.type \in Demanded(KindOf)
MessageKept == Done => out.name = KindOf /\ out.text = MsgOf(KindOf)
ScanAssert == pc = "scan" /\ res # <<>> => ~res[Len(res)].conv        \* the `assert not prev.is_converted`

(* ------------------------------------------------------------------------ *)
(* Expected observations for the harness (always-true reporting invariant)  *)
(* ------------------------------------------------------------------------ *)
SetToList(S) == LET RECURSIVE L(_)
                    L(T) == IF T = {} THEN <<>> ELSE LET x == CHOOSE x \in T : TRUE IN <<x>> \o L(T \ {x})
                IN L(S)
Expect ==
  pc = "done" =>
    IF Mode = "frames"
    THEN PrintT(ToJson([mode |-> "frames", tb |-> tb, map |-> SetToList(map), res |-> res]))
    ELSE PrintT(ToJson([mode |-> "scenario", chain |-> chain, nest |-> nest, tail |-> tail, k |-> k, prior |-> prior,
                        kind |-> KindOf, msg |-> MsgOf(KindOf), init |-> InitOf(KindOf),
                        type |-> out.type, demanded |-> SetToList(Demanded(KindOf)),
                        orig |-> Orig, stack |-> out.stack,
                        conv |-> [i \in 1..N |-> Eff(i)],
                        deflines |-> [i \in 1..N |-> DefLine(i)],
                        full |-> TbFrom(1),
                        scans |-> [p \in 1..Len(scans) |-> [lvl |-> scans[p].lvl, tb |-> scans[p].tb,
                                                           map |-> SetToList(scans[p].map), res |-> scans[p].res]]]))
=============================================================================
