------------------------------- MODULE FnEnv -------------------------------
(***************************************************************************)
(* Property C09: a converted function keeps the calling interface and the  *)
(* environment of the original.                                            *)
(*                                                                         *)
(* Function objects are records                                            *)
(*   [code, globals (dict id), bound, cells : name -> cell id,             *)
(*    defaults : Seq(object id), kwdefaults : name -> object id,           *)
(*    params : Seq([name, kind, dflt])]                                    *)
(* over a small heap: cells hold values (0 = unassigned cell), default     *)
(* objects have a content (number of appends to a mutable default), the    *)
(* module dictionary holds the value of one global.                        *)
(*                                                                         *)
(* Written like the code (malt/pyct/transpiler.py):                        *)
(*   Instantiate   _PythonFnFactory.instantiate: closure cells of the      *)
(*                 source function are matched *by name* with the free     *)
(*                 variables of the regenerated factory, the globals       *)
(*                 dictionary is passed through, defaults and keyword-only *)
(*                 defaults are re-attached (same objects), decorators and *)
(*                 default expressions are not evaluated again.            *)
(*   Bind          CPython's argument binding (validated against CPython   *)
(*                 by the harness in every run: the same behaviour is      *)
(*                 replayed on the unconverted function).                  *)
(*   Body          the effect of the generated scenario body: append to    *)
(*                 every mutable default that was used, optional nonlocal  *)
(*                 write, read of the free variables the body references,  *)
(*                 read of a global.                                       *)
(* Actions on the pair (f, g = Convert(f)); side "c" is the wrapper made   *)
(* by the malt.convert() decorator (converts at call time), side "r" a      *)
(* converted caller that forwards its arguments to f, so that f is reached *)
(* as a *callee* by recursive conversion (impl/api.py converted_call with  *)
(* options.call_options(): user_requested = FALSE) - for a decorated       *)
(* function whose decorator returns a wrapper, that caller is the          *)
(* decorator's own wrapper -, side "sib" a sibling closure sharing cells   *)
(* with f:                                                                 *)
(*   Convert(i), Call(side, binding), Rebind(side, name, how),             *)
(*   ReadBack(side, name), MutateDefault(side, slot), RebindGlobal(side).  *)
(* A scenario (signature x default kinds x entity kind x closure shape) is *)
(* picked by two setup actions so that random generation (TLC -generate)   *)
(* never has to enumerate the scenario space as initial states.            *)
(* A cell may be absent from g when the regenerated factory references     *)
(* fewer free variables than the source function (instantiate() used to    *)
(* raise "closure mismatch" there: notes/C09.md, finding fixed in /repo).  *)
(*                                                                         *)
(* TLC checks the laws on the model (Agree, AgreeCalls, NoCrossTalk,       *)
(* SideEffectsOnce) and prints every complete behaviour with the expected  *)
(* observation of each step and the expected heap after it (Report); the   *)
(* harness vf/props/c09.py replays each on real (f, malt.to_graph(f),      *)
(* malt.convert()(f)) and compares after every step.                       *)
(***************************************************************************)
EXTENDS Naturals, Sequences, FiniteSets, TLC, Json

CONSTANTS MaxPO,      \* positional-only parameters 0..MaxPO  (<= 2)
          MaxP,       \* positional-or-keyword parameters 0..MaxP (<= 2)
          MaxKO,      \* keyword-only parameters 0..MaxKO (<= 2)
          VarParams,  \* BOOLEAN: signatures with *args / **kw are included
          MaxFree,    \* free variables 0..MaxFree (<= 3)
          Kinds,      \* subset of {"def","lambda","method","nested","loopdef","decorated"}
          Depth,      \* number of actions after the scenario is set up
          DKSet,      \* subset of {"list", "obj", "mixed"}: kinds of default values
          WrapSet,    \* subset of BOOLEAN: decorated functions whose decorator returns a wrapper (TRUE) / the function
          PreSet,     \* subset of BOOLEAN: TRUE = g is made right after the definitions, FALSE = by a Convert step
          Mode,       \* call bindings: "bind" every binding, on g;  "bindc" on g and the convert() wrapper;
                      \* "bindr" on g, the convert() wrapper and through the converted caller;
                      \* "env" the minimal call only;  "sim" everything, for random behaviours (TLC -generate)
          MaxKw,      \* keyword arguments per call <= MaxKw
          Variant     \* "ok" (the code) | wrong designs for the self test: "bypos" (cells matched by position),
                      \* "calleedeco" (decorators dropped only from the function the user asked to convert)

PONames   == <<"a", "b">>
PNames    == <<"c", "d">>
KONames   == <<"k", "m">>
FreeNames == <<"v0", "v1", "v2">>
AllKinds  == {"def", "lambda", "method", "nested", "loopdef", "decorated"}
DKs       == {"list", "obj", "mixed"}
ASSUME /\ Kinds \subseteq AllKinds /\ DKSet \subseteq DKs /\ PreSet \subseteq BOOLEAN /\ WrapSet \subseteq BOOLEAN
       /\ MaxPO <= 2 /\ MaxP <= 2 /\ MaxKO <= 2 /\ MaxFree <= 3

VARIABLES phase,   \* "sig" -> "env" -> "conv" -> "run"
          sc,      \* the scenario
          cellv,   \* cell id   -> value (0 = unassigned)
          objv,    \* object id -> number of appends
          globv,   \* dict id   -> value of the global G
          deco,    \* instance  -> number of times its decorator ran
          evals,   \* instance  -> number of default expressions evaluated
          conv,    \* instance  -> g exists
          gfn,     \* instance  -> the converted function object (NoFn before Convert)
          hist     \* the behaviour so far: steps with expected observation and heap
vars == <<phase, sc, cellv, objv, globv, deco, evals, conv, gfn, hist>>

(* ---- ids ---------------------------------------------------------------- *)
Insts   == 1..2
CellId(i, j) == i * 10 + j
ObjId(i, s)  == i * 100 + s
Slots   == (1..4) \cup {11, 12}            \* positional default j -> j ; keyword-only parameter j -> 10 + j
CellIds == {CellId(i, j) : i \in Insts, j \in 1..3}
ObjIds  == {ObjId(i, s) : i \in Insts, s \in Slots}
AgCell  == 99                                \* the cell of the injected ag__ module in g's closure

(* ---- signatures ----------------------------------------------------------- *)
Sigs == {s \in [npo : 0..MaxPO, np : 0..MaxP, va : BOOLEAN, nk : 0..MaxKO, vk : BOOLEAN,
                nd : 0..(MaxPO + MaxP), kd : SUBSET (1..MaxKO)] :
           s.nd <= s.npo + s.np /\ s.kd \subseteq 1..s.nk /\ (~VarParams => ~s.va /\ ~s.vk)}
NPos(s) == s.npo + s.np
NDef(s) == s.nd + Cardinality(s.kd)
PosParam(s, i) == [name |-> IF i <= s.npo THEN PONames[i] ELSE PNames[i - s.npo],
                   kind |-> IF i <= s.npo THEN "posonly" ELSE "pos",
                   dflt |-> IF i > NPos(s) - s.nd THEN i - (NPos(s) - s.nd) ELSE 0]
KwParam(s, i)  == [name |-> KONames[i], kind |-> "kwonly", dflt |-> IF i \in s.kd THEN 10 + i ELSE 0]
Params(s) == [i \in 1..NPos(s) |-> PosParam(s, i)]
             \o (IF s.va THEN <<[name |-> "args", kind |-> "vararg", dflt |-> 0]>> ELSE <<>>)
             \o [i \in 1..s.nk |-> KwParam(s, i)]
             \o (IF s.vk THEN <<[name |-> "kw", kind |-> "varkw", dflt |-> 0]>> ELSE <<>>)
NoSig == [npo |-> 0, np |-> 0, va |-> FALSE, nk |-> 0, vk |-> FALSE, nd |-> 0, kd |-> {}]

(* ---- closure shapes ------------------------------------------------------- *)
(* role "r": the body reads it; "w": the body reads it and can rebind it (nonlocal);            *)
(* "d": a module alias through which the body reaches a directive (v.experimental.set_loop_options(..)); *)
(* conversion removes the directive call, so the converted body no longer references v.  Exclusions:  *)
(* such a cell is always assigned and is never rebound (malt/converters/directives.py documents that  *)
(* directives must be static; the unconverted function still evaluates the call).                     *)
FV == {v \in [role : {"r", "w", "d"}, asg : BOOLEAN, sh : BOOLEAN] : v.role = "d" => v.asg}
FreeShapes(kind) ==
  IF kind = "def" THEN {<<>>}                              \* module level: no enclosing function scope
  ELSE UNION {{fs \in [1..n -> FV] : kind = "lambda" => \A j \in 1..n : fs[j].role = "r"} : n \in 0..MaxFree}

(* wrap (decorated functions only): the decorator returns a plain-Python wrapper that forwards its star and *)
(* double-star arguments to the function,                                                                *)
(* instead of the function itself; the name is then bound to the wrapper, f is the function it wraps.     *)
NoSc  == [sig |-> NoSig, dk |-> "list", kind |-> "def", free |-> <<>>, pre |-> FALSE, wrap |-> FALSE]

NI       == IF sc.kind = "loopdef" THEN 2 ELSE 1
(* the instance parameter of a method precedes the "/" of the signature: positional-only if anything is *)
SelfParam == [name |-> "self", kind |-> IF sc.sig.npo > 0 THEN "posonly" ELSE "pos", dflt |-> 0]
NFree    == Len(sc.free)
FreeIdx(n) == CHOOSE j \in 1..3 : FreeNames[j] = n
Names    == {FreeNames[j] : j \in 1..NFree}
Role(n)  == sc.free[FreeIdx(n)].role
Shared(n) == sc.free[FreeIdx(n)].sh
Mutable(o) == LET s == o % 100 IN
              IF sc.dk = "list" THEN TRUE ELSE IF sc.dk = "obj" THEN FALSE ELSE s % 2 = 1

(* ---- function objects ------------------------------------------------------ *)
NoFn == [code |-> 0, globals |-> 0, bound |-> FALSE, cells |-> <<>>, defaults |-> <<>>, kwdefaults |-> <<>>,
         params |-> <<>>]
F(i) == [code |-> 1, globals |-> 1, bound |-> sc.kind = "method",
         cells |-> [n \in Names |-> CellId(i, FreeIdx(n))],
         defaults |-> [j \in 1..sc.sig.nd |-> ObjId(i, j)],
         kwdefaults |-> [n \in {KONames[j] : j \in sc.sig.kd} |->
                           ObjId(i, 10 + (CHOOSE j \in sc.sig.kd : KONames[j] = n))],
         params |-> Params(sc.sig)]

(* transpiler.py: PyToPy.transform_function + _PythonFnFactory.instantiate                      *)
OrigFreevars    == [j \in 1..NFree |-> FreeNames[j]]                 \* fn.__code__.co_freevars (sorted)
FactoryFreevars == SelectSeq(OrigFreevars, LAMBDA n : Role(n) # "d") \* co_freevars of the regenerated factory
PosIn(seq, n)   == CHOOSE j \in 1..Len(seq) : seq[j] = n
Instantiate(f) ==
  LET closure     == [j \in 1..NFree |-> f.cells[FreeNames[j]]]      \* fn.__closure__
      closureMap  == [n \in Names |-> closure[PosIn(OrigFreevars, n)]] \* dict(zip(self._freevars, closure))
      factoryCl   == [j \in 1..Len(FactoryFreevars) |->
                        IF Variant = "bypos" THEN closure[j] ELSE closureMap[FactoryFreevars[j]]]
  IN [code |-> 2, globals |-> f.globals, bound |-> FALSE,
      cells |-> [n \in {FactoryFreevars[j] : j \in 1..Len(FactoryFreevars)} \cup {"ag__"} |->
                   IF n = "ag__" THEN AgCell ELSE factoryCl[PosIn(FactoryFreevars, n)]],
      defaults |-> f.defaults,                                          \* new_fn.__defaults__ = defaults
      kwdefaults |-> f.kwdefaults,                                      \* new_fn.__kwdefaults__ = kwdefaults
      params |-> IF f.bound THEN <<SelfParam>> \o f.params ELSE f.params]  \* a method converts to its function

Fn(side, i) == CASE side = "f" -> F(i)
                 [] side = "g" -> gfn[i]
                 [] OTHER      -> Instantiate(F(i))       \* "c": the convert() wrapper converts f when called;
                                                          \* "r": converted_call in the converted caller does

(* ---- who asked for the conversion; decorators ------------------------------- *)
(* to_graph(f) and convert()(f) convert with user_requested = TRUE; the generated code of a converted caller *)
(* calls ag__.converted_call(f, args, kwargs, fscope), which converts f with options.call_options():        *)
(* user_requested = FALSE.  converters/functions.py visit_FunctionDef: the generated definition of the      *)
(* converted entity (function scope level <= 2) has an empty decorator list in both cases; every            *)
(* instantiation of the generated factory executes that definition, so a decorator left on it would run     *)
(* again each time.                                                                                          *)
UserRequested(side) == side \in {"g", "c"}
Decorators          == IF sc.kind = "decorated" THEN 1 ELSE 0        \* decorators on the definition of f
GenDecorators(side) == IF Variant = "calleedeco" /\ ~UserRequested(side) THEN Decorators ELSE 0
ConvertsAtCall(side) == side \in {"c", "r"}

(* ---- CPython argument binding ----------------------------------------------- *)
IsVar(p) == p.kind \in {"vararg", "varkw"}
Bind(ps, npos, kws, dup) ==
  LET n       == Cardinality({i \in 1..Len(ps) : ps[i].kind \in {"posonly", "pos"}})
      hasVA   == \E i \in 1..Len(ps) : ps[i].kind = "vararg"
      hasVK   == \E i \in 1..Len(ps) : ps[i].kind = "varkw"
      byPos   == {i \in 1..n : i <= npos}
      kwHit   == {i \in 1..Len(ps) : ps[i].kind \in {"pos", "kwonly"} /\ ps[i].name \in kws}
      extra   == kws \ {ps[i].name : i \in kwHit}
      filled  == byPos \cup kwHit
      missing == {i \in 1..Len(ps) : ~IsVar(ps[i]) /\ i \notin filled /\ ps[i].dflt = 0}
      ok      == /\ ~dup                                   \* f(**{n: ..}, **{n: ..}): rejected at the call site
                 /\ (npos > n => hasVA)                    \* too many positional arguments
                 /\ byPos \cap kwHit = {}                  \* multiple values for an argument
                 /\ (extra # {} => hasVK)                  \* unexpected keyword (incl. a positional-only name)
                 /\ missing = {}
  IN IF ok
     THEN [ok |-> TRUE,
           how |-> [i \in 1..Len(ps) |-> CASE ps[i].kind = "vararg" -> "star"
                                           [] ps[i].kind = "varkw"  -> "dstar"
                                           [] i \in byPos           -> "pos"
                                           [] i \in kwHit           -> "kw"
                                           [] OTHER                 -> "dflt"],
           spill |-> IF npos > n THEN npos - n ELSE 0, extra |-> extra]
     ELSE [ok |-> FALSE, how |-> <<>>, spill |-> 0, extra |-> {}]

CallParams(fn) == IF fn.bound THEN <<SelfParam>> \o fn.params ELSE fn.params
SelfArgs       == IF sc.kind = "method" THEN 1 ELSE 0     \* the instance: prepended by Python (bound method),
                                                            \* by the caller (g) or by converted_call (c)
DefaultObj(fn, p) == IF p.kind = "kwonly" THEN fn.kwdefaults[p.name] ELSE fn.defaults[p.dflt]

(* ---- the scenario body -------------------------------------------------------- *)
NoObs == [exc |-> "", how |-> <<>>, spill |-> 0, extra |-> {}, reads |-> <<>>, glob |-> 0, name |-> "", val |-> 0]
ReadNames(fn) == SelectSeq(OrigFreevars, LAMBDA n : Role(n) # "d" /\ n \in DOMAIN fn.cells)

(* outcome of calling fn with (npos positional, keywords kws) in the heap (cv, ov, gv);                     *)
(* cmd # "" asks the body to rebind the free variable cmd to val.  Order of the body: append to every       *)
(* mutable default that was used, the requested nonlocal write, read the free variables, read the global.   *)
OutcomeIn(fn, npos, kws, dup, cmd, val, cv, ov, gv) ==
  LET ps    == CallParams(fn)
      b     == Bind(ps, npos + SelfArgs, kws, dup)
  IN IF ~b.ok THEN [obs |-> [NoObs EXCEPT !.exc = "TypeError"], cellv |-> cv, objv |-> ov]
     ELSE
       LET used  == {DefaultObj(fn, ps[i]) : i \in {j \in 1..Len(ps) : b.how[j] = "dflt"}}
           ov2   == [o \in ObjIds |-> IF o \in used /\ Mutable(o) THEN ov[o] + 1 ELSE ov[o]]
           cv2   == IF cmd # "" THEN [cv EXCEPT ![fn.cells[cmd]] = val] ELSE cv
           rn    == ReadNames(fn)
           unb   == {j \in 1..Len(rn) : cv2[fn.cells[rn[j]]] = 0}
       IN IF unb # {}
          THEN [obs |-> [NoObs EXCEPT !.exc = "NameError",
                                      !.name = rn[CHOOSE j \in unb : \A k \in unb : j <= k]],
                cellv |-> cv2, objv |-> ov2]
          ELSE [obs |-> [NoObs EXCEPT !.how = b.how, !.spill = b.spill, !.extra = b.extra,
                                      !.reads = [j \in 1..Len(rn) |-> cv2[fn.cells[rn[j]]]],
                                      !.glob = gv[fn.globals]],
                cellv |-> cv2, objv |-> ov2]
Outcome(fn, npos, kws, dup, cmd, val) == OutcomeIn(fn, npos, kws, dup, cmd, val, cellv, objv, globv)

(* the call as seen from a side.  Side "r": the caller, whose parameters are FwdParams (star fa, double-star   *)
(* fk) and whose body returns f called with star fa and double-star fk, binds its own                          *)
(* parameters first (it accepts everything but a duplicate keyword, which the call site rejects) and forwards    *)
(* what it received to the function that converted_call made of f.                                              *)
FwdParams == <<[name |-> "fa", kind |-> "vararg", dflt |-> 0], [name |-> "fk", kind |-> "varkw", dflt |-> 0]>>
OutcomeVia(side, i, b, cmd, val) ==
  IF side = "r"
  THEN LET fb == Bind(FwdParams, b.npos, b.kws, b.dup) IN
       IF ~fb.ok THEN [obs |-> [NoObs EXCEPT !.exc = "TypeError"], cellv |-> cellv, objv |-> objv]
       ELSE Outcome(Fn("r", i), fb.spill, fb.extra, FALSE, cmd, val)
  ELSE Outcome(Fn(side, i), b.npos, b.kws, b.dup, cmd, val)
(* decorator applications after a step in which `side` converts f *)
DecoConv(side, i) == [deco EXCEPT ![i] = @ + GenDecorators(side)]

(* ---- call shapes ---------------------------------------------------------------- *)
PlainParams == Params(sc.sig)
KwUniverse  == {PlainParams[i].name : i \in {j \in 1..Len(PlainParams) : ~IsVar(PlainParams[j])}}
               \cup {"zz"} \cup (IF sc.kind = "method" THEN {"self"} ELSE {})
ReqPos      == NPos(sc.sig) - sc.sig.nd
ReqKw       == {KONames[j] : j \in (1..sc.sig.nk) \ sc.sig.kd}
AllKw       == {KONames[j] : j \in 1..sc.sig.nk}
PNamesUsed  == {PNames[j] : j \in 1..sc.sig.np}
B(np, kws, dup) == [npos |-> np, kws |-> kws, dup |-> dup]
MinCall     == B(ReqPos, ReqKw, FALSE)                               \* defaults used wherever possible
FullCall    == B(NPos(sc.sig), AllKw, FALSE)                         \* everything passed: accepted, no effect
CanonCalls  == {MinCall, FullCall,
                B(sc.sig.npo, PNamesUsed \cup AllKw, FALSE),         \* by keyword wherever allowed
                B(NPos(sc.sig) + 2, ReqKw, FALSE),                   \* spill into *args / too many
                B(ReqPos, ReqKw \cup {"zz"}, FALSE),                 \* spill into **kw / unexpected
                B(IF ReqPos > 0 THEN ReqPos - 1 ELSE 0, {}, FALSE),  \* missing
                B(NPos(sc.sig), ReqKw \cup PNamesUsed, FALSE),       \* multiple values
                B(ReqPos, ReqKw \cup {PONames[j] : j \in 1..sc.sig.npo}, FALSE)}   \* positional-only by keyword
AllCalls    == {B(np, kws, dup) : np \in 0..(NPos(sc.sig) + 2),
                                  kws \in {k \in SUBSET KwUniverse : Cardinality(k) <= MaxKw},
                                  dup \in BOOLEAN} \ {B(np, {}, TRUE) : np \in 0..(NPos(sc.sig) + 2)}
Accepted    == {b \in AllCalls : Bind(CallParams(F(1)), b.npos + SelfArgs, b.kws, b.dup).ok}
Calls       == IF Mode = "env" THEN {MinCall} ELSE AllCalls
CallSides   == IF Mode = "bind" THEN {"g"} ELSE IF Mode = "bindc" THEN {"g", "c"}
               ELSE IF Mode = "bindr" THEN {"g", "c", "r"} ELSE {"f", "g", "c", "r"}
               \* (bind modes: f itself is called by the harness's CPython validation of every behaviour)

(* ---- state machine ----------------------------------------------------------------- *)
(* compact encodings for the printed behaviours: the heap as one sequence of integers                       *)
(*   <<6 cells (inst 1: v0 v1 v2, inst 2: ...), 12 default objects (inst 1: slots 1..4, 11, 12, inst 2: ...), *)
(*     G, deco[1], deco[2], evals[1], evals[2], conv[1], conv[2]>>                                            *)
B2I(x) == IF x THEN 1 ELSE 0
PostOf(cv, ov, gv, cn) ==
        [k \in 1..6 |-> cv[CellId(((k - 1) \div 3) + 1, ((k - 1) % 3) + 1)]]
        \o [k \in 1..12 |-> ov[ObjId(((k - 1) \div 6) + 1, LET s == ((k - 1) % 6) + 1 IN IF s <= 4 THEN s ELSE s + 6)]]
        \o <<gv[1], deco[1], deco[2], evals[1], evals[2], B2I(cn[1]), B2I(cn[2])>>
Post == PostOf(cellv, objv, globv, conv)
ObsOut(o) == <<o.exc, o.how, o.spill, o.extra, o.reads, o.glob, o.name, o.val>>
(* what the effect-free full call must return on every side of instance i in the heap (cv, ov, gv) *)
Probes(cv, ov, gv) == [i \in 1..NI |->
        ObsOut(OutcomeIn(F(i), FullCall.npos, FullCall.kws, FALSE, "", 0, cv, ov, gv).obs)]
(* a step: <<act, side, inst, npos, kws, dup, name, how, val, expected observation, expected heap after it, *)
(*           expected result of the probe call per instance>>                                               *)
Step(act, side, i, b, name, how, val, obs, cv, ov, gv, cn) ==
        <<act, side, i, b.npos, b.kws, b.dup, name, how, val, ObsOut(obs), PostOf(cv, ov, gv, cn), Probes(cv, ov, gv)>>
NoB == B(0, {}, FALSE)
Fresh == 100 + Len(hist) + 1

Init == /\ phase = "sig" /\ sc = NoSc
        /\ cellv = [c \in CellIds |-> 0] /\ objv = [o \in ObjIds |-> 0] /\ globv = [d \in {1} |-> 1]
        /\ deco = [i \in Insts |-> 0] /\ evals = [i \in Insts |-> 0] /\ conv = [i \in Insts |-> FALSE]
        /\ gfn = [i \in Insts |-> NoFn] /\ hist = <<>>

PickSig == /\ phase = "sig"
           /\ \E s \in Sigs, d \in DKSet :
                /\ (NDef(s) = 0 => d = "list") /\ (NDef(s) = 1 => d # "mixed")
                /\ sc' = [sc EXCEPT !.sig = s, !.dk = d]
           /\ phase' = "env"
           /\ UNCHANGED <<cellv, objv, globv, deco, evals, conv, gfn, hist>>

PickEnv == /\ phase = "env"
           /\ \E kind \in Kinds : \E fs \in FreeShapes(kind) :
              \E pre \in PreSet : \E wrap \in (IF kind = "decorated" THEN WrapSet ELSE {FALSE}) :
                LET ni == IF kind = "loopdef" THEN 2 ELSE 1 IN
                /\ sc' = [sc EXCEPT !.kind = kind, !.free = fs, !.pre = pre, !.wrap = wrap]
                /\ cellv' = [c \in CellIds |->
                               LET i == c \div 10  j == c % 10 IN
                               IF i <= ni /\ j <= Len(fs) /\ fs[j].asg THEN c ELSE 0]
                /\ deco' = [i \in Insts |-> IF i <= ni /\ kind = "decorated" THEN 1 ELSE 0]
                /\ evals' = [i \in Insts |-> IF i <= ni THEN NDef(sc.sig) ELSE 0]
                /\ conv' = [i \in Insts |-> pre /\ i <= ni]
           /\ phase' = "conv"
           /\ UNCHANGED <<objv, globv, gfn, hist>>

(* pre-converted scenarios: g is made right after the definitions (not counted as a step) *)
PreConvert == /\ phase = "conv"
              /\ gfn' = [i \in Insts |-> IF conv[i] THEN Instantiate(F(i)) ELSE NoFn]
              /\ phase' = "run"
              /\ UNCHANGED <<sc, cellv, objv, globv, deco, evals, conv, hist>>

Running == phase = "run" /\ Len(hist) < Depth
Live(side, i) == i <= NI /\ (side = "g" => conv[i])

(* g = malt.to_graph(f): decorators are not re-applied, default expressions not re-evaluated *)
Convert(i) == /\ Running /\ i <= NI /\ ~conv[i]
              /\ gfn' = [gfn EXCEPT ![i] = Instantiate(F(i))]
              /\ conv' = [conv EXCEPT ![i] = TRUE]
              /\ deco' = DecoConv("g", i)
              /\ hist' = Append(hist, Step("convert", "g", i, NoB, "", "", 0, NoObs, cellv, objv, globv, conv'))
              /\ UNCHANGED <<phase, sc, cellv, objv, globv, evals>>

(* sides "c" and "r" convert f at the call (before its arguments are bound) *)
Call(side, i, b) ==
  /\ Running /\ Live(side, i) /\ side \in {"f", "g", "c", "r"}
  /\ LET o == OutcomeVia(side, i, b, "", 0) IN
     /\ cellv' = o.cellv /\ objv' = o.objv
     /\ deco' = IF ConvertsAtCall(side) /\ ~b.dup THEN DecoConv(side, i) ELSE deco
     /\ hist' = Append(hist, Step("call", side, i, b, "", "", 0, o.obs, o.cellv, o.objv, globv, conv))
  /\ UNCHANGED <<phase, sc, globv, evals, conv, gfn>>

(* a nonlocal write made by the body (how = "call": the minimal call with the rebind request), through the *)
(* cell object reachable from the function (how = "cell"), or by the sibling closure (side "sib")          *)
Rebind(side, i, n, how) ==
  /\ Running /\ Live(side, i) /\ n \in Names /\ Role(n) # "d"
  /\ \/ /\ how = "call" /\ side \in {"f", "g", "c", "r"} /\ Role(n) = "w"
        /\ LET o == OutcomeVia(side, i, MinCall, n, Fresh) IN
           /\ cellv' = o.cellv /\ objv' = o.objv
           /\ deco' = IF ConvertsAtCall(side) THEN DecoConv(side, i) ELSE deco
           /\ hist' = Append(hist, Step("rebind", side, i, MinCall, n, how, Fresh, o.obs, o.cellv, o.objv, globv, conv))
     \/ /\ how = "cell" /\ side \in {"f", "g"} /\ n \in DOMAIN Fn(side, i).cells
        /\ cellv' = [cellv EXCEPT ![Fn(side, i).cells[n]] = Fresh] /\ objv' = objv /\ deco' = deco
        /\ hist' = Append(hist, Step("rebind", side, i, NoB, n, how, Fresh, NoObs, cellv', objv, globv, conv))
     \/ /\ how = "sib" /\ side = "sib" /\ Shared(n)
        /\ cellv' = [cellv EXCEPT ![CellId(i, FreeIdx(n))] = Fresh] /\ objv' = objv /\ deco' = deco
        /\ hist' = Append(hist, Step("rebind", side, i, NoB, n, how, Fresh, NoObs, cellv', objv, globv, conv))
  /\ UNCHANGED <<phase, sc, globv, evals, conv, gfn>>

ReadBack(side, i, n) ==
  /\ Running /\ Live(side, i) /\ n \in Names
  /\ \/ /\ side \in {"f", "g"} /\ n \in DOMAIN Fn(side, i).cells
        /\ hist' = Append(hist, Step("readback", side, i, NoB, n, "cell", 0,
                                     [NoObs EXCEPT !.val = cellv[Fn(side, i).cells[n]]], cellv, objv, globv, conv))
     \/ /\ side = "sib" /\ Shared(n)
        /\ hist' = Append(hist, Step("readback", side, i, NoB, n, "sib", 0,
                                     [NoObs EXCEPT !.val = cellv[CellId(i, FreeIdx(n))]], cellv, objv, globv, conv))
  /\ UNCHANGED <<phase, sc, cellv, objv, globv, deco, evals, conv, gfn>>

(* append to a mutable default through the function object's __defaults__ / __kwdefaults__ *)
SlotObjs(fn) == {fn.defaults[j] : j \in DOMAIN fn.defaults} \cup {fn.kwdefaults[n] : n \in DOMAIN fn.kwdefaults}
MutateDefault(side, i, o) ==
  /\ Running /\ Live(side, i) /\ side \in {"f", "g"} /\ o \in SlotObjs(Fn(side, i)) /\ Mutable(o)
  /\ objv' = [objv EXCEPT ![o] = @ + 1]
  /\ hist' = Append(hist, Step("mutate", side, i, NoB, "", "", o % 100, NoObs, cellv, objv', globv, conv))
  /\ UNCHANGED <<phase, sc, cellv, globv, deco, evals, conv, gfn>>

RebindGlobal(side, i) ==
  /\ Running /\ Live(side, i) /\ side \in {"f", "g"}
  /\ globv' = [globv EXCEPT ![Fn(side, i).globals] = Fresh]
  /\ hist' = Append(hist, Step("global", side, i, NoB, "G", "", Fresh, NoObs, cellv, objv, globv', conv))
  /\ UNCHANGED <<phase, sc, cellv, objv, deco, evals, conv, gfn>>

Sides == {"f", "g", "c", "r", "sib"}
(* one named action per kind of step (the guard Running comes first so that finished behaviours cost nothing) *)
ConvertAct  == Running /\ \E i \in 1..NI : Convert(i)
CallAct     == Running /\
               IF Mode = "sim"                   \* random behaviours: one third canonical, one third accepted,
               THEN \/ \E b \in CanonCalls : \E side \in {"f", "g", "c", "r"}, i \in 1..NI : Call(side, i, b)   \* one third any
                    \/ \E b \in Accepted   : \E side \in {"f", "g", "c", "r"}, i \in 1..NI : Call(side, i, b)
                    \/ \E b \in AllCalls   : \E side \in {"f", "g", "c", "r"}, i \in 1..NI : Call(side, i, b)
               ELSE \E b \in Calls : \E side \in CallSides, i \in 1..NI : Call(side, i, b)
RebindAct   == Running /\ \E side \in Sides, i \in 1..NI, n \in Names, how \in {"call", "cell", "sib"} : Rebind(side, i, n, how)
ReadBackAct == Running /\ \E side \in Sides, i \in 1..NI, n \in Names : ReadBack(side, i, n)
MutateAct   == Running /\ \E side \in {"f", "g"}, i \in 1..NI, o \in ObjIds : MutateDefault(side, i, o)
GlobalAct   == Running /\ \E side \in {"f", "g"}, i \in 1..NI : RebindGlobal(side, i)
Next == \/ PickSig \/ PickEnv \/ PreConvert
        \/ ConvertAct \/ CallAct \/ RebindAct \/ ReadBackAct \/ MutateAct \/ GlobalAct
Spec == Init /\ [][Next]_vars

(* ---- the property, on the model ------------------------------------------------------- *)
Converted == {i \in Insts : phase = "run" /\ i <= NI /\ conv[i]}
(* the projections of f and g agree *)
Agree == \A i \in Converted :
           LET f == F(i)  g == gfn[i] IN
           /\ g.globals = f.globals                                        \* same module dictionary
           /\ g.defaults = f.defaults /\ g.kwdefaults = f.kwdefaults       \* the same objects
           /\ CallParams(g) = CallParams(f)                                \* same names, kinds, order (+ self)
           /\ \A n \in DOMAIN g.cells \ {"ag__"} : n \in DOMAIN f.cells /\ g.cells[n] = f.cells[n]
           /\ \A n \in DOMAIN f.cells : n \notin DOMAIN g.cells => Role(n) = "d"
(* every call has the same outcome (result, exception, effect on the heap) on f, g, the convert() wrapper and *)
(* through a converted caller                                                                                *)
LastAct == IF hist = <<>> THEN "" ELSE hist[Len(hist)][1]
AgreeCalls == \A i \in Converted : LastAct # "call" => \A b \in (IF Mode \in {"bind", "bindc", "bindr"} THEN AllCalls ELSE CanonCalls) :
                /\ Outcome(F(i), b.npos, b.kws, b.dup, "", 0) = Outcome(gfn[i], b.npos, b.kws, b.dup, "", 0)
                /\ Outcome(F(i), b.npos, b.kws, b.dup, "", 0) = Outcome(Fn("c", i), b.npos, b.kws, b.dup, "", 0)
                /\ Outcome(F(i), b.npos, b.kws, b.dup, "", 0) = OutcomeVia("r", i, b, "", 0)
(* functions made from one code object keep their own cells and defaults *)
NoCrossTalk == (phase = "run" /\ NI = 2 /\ conv[1] /\ conv[2]) =>
                 /\ \A n \in DOMAIN gfn[1].cells \ {"ag__"} : gfn[1].cells[n] # gfn[2].cells[n]
                 /\ SlotObjs(gfn[1]) \cap SlotObjs(gfn[2]) = {}
(* no conversion - requested by the user or reached from a converted caller - re-applies decorators or *)
(* re-evaluates default expressions                                                                    *)
SideEffectsOnce == phase = "run" =>
                     \A i \in 1..NI : deco[i] = (IF sc.kind = "decorated" THEN 1 ELSE 0) /\ evals[i] = NDef(sc.sig)

(* ---- expected observations for the harness: one JSON line per complete behaviour --------- *)
Key   == <<sc.sig.npo, sc.sig.np, B2I(sc.sig.va), sc.sig.nk, B2I(sc.sig.vk), sc.sig.nd, sc.sig.kd, sc.dk, sc.kind,
           [j \in 1..NFree |-> <<sc.free[j].role, B2I(sc.free[j].asg), B2I(sc.free[j].sh)>>], B2I(sc.pre), B2I(sc.wrap)>>
ScOut == [npo |-> sc.sig.npo, np |-> sc.sig.np, va |-> sc.sig.va, nk |-> sc.sig.nk, vk |-> sc.sig.vk,
          nd |-> sc.sig.nd, kd |-> sc.sig.kd, dk |-> sc.dk, kind |-> sc.kind, free |-> sc.free, pre |-> sc.pre,
          wrap |-> sc.wrap, rprobe |-> "r" \in CallSides,
          ni |-> NI, params |-> Params(sc.sig), selfparam |-> SelfParam, gcells |-> DOMAIN Instantiate(F(1)).cells, post |-> Post,
          probes |-> Probes(cellv, objv, globv), mut |-> {s \in Slots : Mutable(ObjId(1, s))}]
ReportSc == (phase = "run" /\ hist = <<>>) => PrintT(ToJson([k |-> Key, sc |-> ScOut]))
Report   == (phase = "run" /\ Len(hist) = Depth) => PrintT(ToJson([k |-> Key, h |-> hist]))
=============================================================================
