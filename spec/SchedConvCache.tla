-------------------------- MODULE SchedConvCache --------------------------
(***************************************************************************)
(* Schedule generation for ConvCache (property C10, spec -> code).         *)
(*                                                                         *)
(* The same actions as ConvCache, each one also appending                  *)
(*   [a : action name, t : thread (0 = environment), x : <<arg, arg, arg>>,*)
(*    s : abstract state after the step]                                   *)
(* to the history variable `hist`.  Run with -simulate: every behaviour    *)
(* ends in a state where all threads have used up their requests; there    *)
(* the history is printed as one JSON line.  vf/c10_replay.py replays each *)
(* history into the real PyToPy (one thread released at a time) and        *)
(* compares the abstract state after every step.                           *)
(***************************************************************************)
EXTENDS ConvCache, Json

VARIABLES hist,   \* the history
          when    \* [redef, coll, rebind]: history length from which the environment actions are enabled (TLC
                  \* picks successors uniformly; without this the environment would nearly always act first)
svars == <<vars, hist, when>>
Whens == {0, 8, 16, 24, 32, 48}

Abs == [cache |-> {<<k[1], k[2], cache[k]>> : k \in {kk \in Keys : cache[kk] # NoFac}},
        owner |-> owner, depth |-> depth,
        ntr   |-> {<<k[1], k[2], ntr[k]>> : k \in {kk \in Keys : ntr[kk] # 0}},
        ret   |-> {<<r.code, r.env, r.o, r.fac, r.renv>> : r \in returned},
        fns   |-> {<<f.code, f.env>> : f \in fns},
        cells |-> {<<e, cellval[e]>> : e \in Envs},                    \* contents of the closure cells
        addr  |-> {<<c, addr[c]>> : c \in {f.code : f \in fns}}]       \* addresses of the live code objects

Rec(a, t, x) == hist' = Append(hist, [a |-> a, t |-> t, x |-> x, s |-> Abs']) /\ UNCHANGED when
Z == <<0, 0, 0>>

(* any initial contents of the cells (distinct cells holding equal values included); the first history *)
(* record describes the initial state                                                                  *)
SInit == /\ InitBase(InitFns) /\ cellval \in [Envs -> Vals]
         /\ hist = <<[a |-> "Init", t |-> 0, x |-> Z, s |-> Abs]>>
         /\ when \in [redef : Whens, coll : Whens, rebind : Whens]

SStep(t) ==
  \/ \E f \in fns, o \in Opts : Start(t, f, o) /\ Rec("Start", t, <<f.code, f.env, o>>)
  \/ HasBegin(t) /\ Rec("HasBegin", t, Z)
  \/ FastRead(t) /\ Rec("FastRead", t, Z)
  \/ HasEnd(t) /\ Rec("HasEnd", t, Z)
  \/ FastGet(t) /\ Rec("FastGet", t, Z)
  \/ Acquire(t) /\ Rec("Acquire", t, Z)
  \/ ReCheck(t) /\ Rec("ReCheck", t, Z)
  \/ LockGet(t) /\ Rec("LockGet", t, Z)
  \/ TransformBegin(t) /\ Rec("TransformBegin", t, Z)
  \/ \E f \in fns, o \in Opts : Nested(t, f, o) /\ Rec("Nested", t, <<f.code, f.env, o>>)
  \/ ParseFail(t) /\ Rec("ParseFail", t, Z)
  \/ TransformFail(t) /\ Rec("TransformFail", t, Z)
  \/ TransformOk(t) /\ Rec("TransformOk", t, Z)
  \/ Store(t) /\ Rec("Store", t, Z)
  \/ Release(t) /\ Rec("Release", t, Z)
  \/ ReleaseFail(t) /\ Rec("ReleaseFail", t, Z)
  \/ Raise(t) /\ Rec("Raise", t, Z)
  \/ Instantiate(t) /\ Rec("Instantiate", t, Z)
  \/ Return(t) /\ Rec("Return", t, Z)

SEnv ==
  \/ Len(hist) >= when.redef /\ \E f \in fns : Redefine(f) /\ Rec("Redefine", 0, <<f.code, f.env, FreshCode>>)
  \/ Len(hist) >= when.coll /\ \E c \in Codes : Collect(c) /\ Rec("Collect", 0, <<c, 0, 0>>)
  \/ Len(hist) >= when.rebind /\ \E f \in fns : \E v \in Vals \ {cellval[f.env]} : Rebind(f.env, v) /\ Rec("Rebind", 0, <<f.env, v, 0>>)

SNext == ~Done /\ ((\E t \in Threads : SStep(t)) \/ SEnv)
SSpec == SInit /\ [][SNext]_svars

Emit == Done => PrintT(ToJson(hist))
=============================================================================
