----------------------------- MODULE MiniPyMon -----------------------------
(***************************************************************************)
(* Definitions shared by the monitors over MiniPy (CfgSound, ReachDef,     *)
(* Liveness, Activity): the claims exported from the real malt analyses    *)
(* (IOEnv.CLAIM_FILE; Claims[pid][f] is a record of tables keyed by MiniPy *)
(* node ids, index NNodes+1 standing for the arguments/entry node 0),      *)
(* activation bookkeeping and lexical ownership.                           *)
(***************************************************************************)
EXTENDS MiniPy
Claims == JsonDeserialize(IOEnv.CLAIM_FILE)

NNodes == Len(P.nodes)
G(f)   == Claims[pid][f]
Idx(n) == IF n = 0 THEN NNodes + 1 ELSE n

CallIdxs(c)   == {i \in 1..Len(c) : c[i].k = "call"}
NC(c)         == Cardinality(CallIdxs(c))
TopCallIdx(c) == CHOOSE i \in CallIdxs(c) : \A j \in CallIdxs(c) : j <= i
TopCall(c)    == c[TopCallIdx(c)]
\* A return can leave several activations in one step (`return g()`): the call frame whose statement receives the value
\* is the outermost one that is popped, i.e. the (n+1)-th call frame of the stack when n activations remain.
KthCall(c, k) == c[CHOOSE i \in CallIdxs(c) : Cardinality({j \in CallIdxs(c) : j <= i}) = k]
RetCall(c, n) == KthCall(c, n + 1)
ActEnv(c)     == TopCall(c).env
ActFn(c)      == envs[ActEnv(c)].fn
ActFrames(c)  == {c[j] : j \in TopCallIdx(c)..Len(c)}
\* an exception is propagating through a finally block of the current activation (exempt path)
ExcPending(c) == \E f \in ActFrames(c) : f.k = "finally" /\ f.comp[1] = "exc"

\* Reports: a monitor keeps the first MaxReports distinct violation reports of an execution (a later violation must not
\* be hidden by an earlier, possibly already known, one); the monitors discharge what they reported so it is not repeated.
MaxReports == 4
Note(b, r) == IF r = "" \/ Len(b) >= MaxReports \/ r \in Range(b) THEN b ELSE Append(b, r)
Reports0(r) == IF r = "" THEN <<>> ELSE <<r>>

\* lexical ownership: compound statements (of the same function) enclosing n, n included if compound
Anc(n) == IF n = 0 THEN {} ELSE Range(P.anc[n])
Own(s) == {n \in 1..NNodes : s \in Anc(n)}

\* cells owned by activation e, and the name of an owned cell
OwnedCells(es, e) == {es[e].cellOf[nm] : nm \in {m \in NameSet : es[e].cellOf[m] # 0}}
NameOfCell(es, e, c) == CHOOSE nm \in NameSet : es[e].cellOf[nm] = c
\* the activation that owns cell c (cells are created by exactly one activation)
OwnerOf(es, c) == CHOOSE e \in 1..Len(es) : c \in OwnedCells(es, e)
=============================================================================
