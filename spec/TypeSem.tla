------------------------------- MODULE TypeSem -------------------------------
(***************************************************************************)
(* Property C19: static type inference over-approximates the types that    *)
(* occur at run time.                                                      *)
(*                                                                         *)
(* Operational semantics of a small typed Python subset (pure profile) that *)
(* tracks the run-time *type tag* of every variable and of every evaluated  *)
(* expression occurrence, plus a monitor that compares every tag with the   *)
(* claim (anno.Static.TYPES / CLOSURE_TYPES) the real malt analysis made    *)
(* for that occurrence.  Programs and claims are flat JSON tables           *)
(* (vf/c19_lang.py, vf/c19_export.py); pid picks the program of the batch.  *)
(*                                                                         *)
(* Branch outcomes, while trip counts (<= MaxTrip), results of polymorphic  *)
(* external functions and the types of the arguments are nondeterministic:  *)
(* the behaviours of the spec instantiated with program P are all           *)
(* executions of P within the bounds.  One step = one CFG-granularity node  *)
(* (simple statement, if/while test, for header/next, function entry).      *)
(*                                                                         *)
(* The monitor never constrains the semantics: it latches records in `bad`  *)
(* and the reporting invariant Emit (always TRUE) prints every terminal     *)
(* state - decisions, the (occurrence, tag) event sequence (its length and  *)
(* a rolling hash unless Full), outcome, bad - so that the harness can      *)
(* replay it on CPython (model validation) and turn `bad` into findings.    *)
(***************************************************************************)
EXTENDS Naturals, Sequences, FiniteSets, TLC, Json, IOUtils, TypeTables

CONSTANTS MaxTrip, MaxSteps, MaxDepth, MaxDec, Full

Batch  == JsonDeserialize(IOEnv.C19_PROGS)      \* [progs, exts, gvals]
Progs  == Batch.progs
Exts   == Batch.exts                            \* external functions: [name, res: possible result tags]
GVals  == Batch.gvals                           \* external values: [name, t]
Claims == JsonDeserialize(IOEnv.C19_CLAIMS)
MaxAr  == 4

VARIABLES pid, ctrl, envs, cells, dec, ev, evh, evn, status, steps, bad
vars == <<pid, ctrl, envs, cells, dec, ev, evh, evn, status, steps, bad>>

P        == Progs[pid]
C        == Claims[pid]
ND(n)    == P.nodes[n]
EX(e)    == P.exprs[e]
FN(f)    == P.fns[f]
Range(s) == {s[i] : i \in 1..Len(s)}
Front(s) == SubSeq(s, 1, Len(s) - 1)
NameSet  == Range(P.names)

(* ---- values, cells, frames ---------------------------------------------- *)
Data(t)  == [t |-> t, f |-> 0, env |-> 0]
NoV      == Data(<<"?">>)
NoneV    == Data(<<"none">>)
Unbound  == Data(<<"unbound">>)
W(kind, claimed, act, node, nl) == [kind |-> kind, claimed |-> claimed, act |-> act, node |-> node, nl |-> nl]
UnboundCell == [v |-> Unbound, w |-> W("none", TRUE, 0, 0, FALSE), taint |-> FALSE]
St(k, t) == [k |-> k, t |-> t]
ErrStatus(k) == IF k = "unsup" THEN St("unsup", <<"unsup">>) ELSE St("exc", <<k>>)

Frame(k, blk, node, env) ==
  [k |-> k, blk |-> blk, i |-> 1, node |-> node, env |-> env, items |-> <<>>, trips |-> 0, dirty |-> FALSE]
Top    == ctrl[Len(ctrl)]
Adv(c) == [c EXCEPT ![Len(c)].i = @ + 1]
Depth  == Cardinality({i \in 1..Len(ctrl) : ctrl[i].k = "call"})

(* ---- static scoping (language reference 4.2.2; validated by the replay) -- *)
ExprsOf(f, kinds) == {i \in 1..Len(P.exprs) : EX(i).fn = f /\ EX(i).kind \in kinds}
LocalsOf(f) ==
  ({EX(i).name : i \in ExprsOf(f, {"param", "store"})}
     \cup {FN(ND(n).f).name : n \in {m \in 1..Len(P.nodes) : ND(m).kind = "def" /\ ND(m).fn = f}})
  \ Range(FN(f).nonlocals)
UsedIn(f) == {EX(i).name : i \in ExprsOf(f, {"name", "store"})}
Kids(f)   == {k \in 1..Len(P.fns) : FN(k).parent = f}
RECURSIVE FreeOf(_)
FreeOf(f) == (UsedIn(f) \cup UNION {FreeOf(k) : k \in Kids(f)}) \ LocalsOf(f)
(* the function whose variable a binding / use of nm written in function g refers to (0: none - an external name) *)
RECURSIVE Owner(_, _)
Owner(g, nm) == IF g = 0 THEN 0 ELSE IF nm \in LocalsOf(g) THEN g ELSE Owner(FN(g).parent, nm)
(* some statement (assignment, unpacking, augmented assignment, for target, def) rebinds the variable nm of f *)
Rebound(f, nm) ==
  \/ \E i \in 1..Len(P.exprs) : EX(i).kind = "store" /\ EX(i).name = nm /\ Owner(EX(i).fn, nm) = f
  \/ \E n \in 1..Len(P.nodes) : ND(n).kind = "def" /\ FN(ND(n).f).name = nm /\ Owner(ND(n).fn, nm) = f

RECURSIVE CellOf(_, _, _)
CellOf(es, env, name) ==
  IF env = 0 THEN 0
  ELSE IF es[env].cellOf[name] # 0 THEN es[env].cellOf[name]
  ELSE CellOf(es, es[env].parent, name)

IsGlobalVal(nm) == \E i \in 1..Len(GVals) : GVals[i].name = nm
GVal(nm)  == GVals[CHOOSE i \in 1..Len(GVals) : GVals[i].name = nm].t
ExtOf(nm) == Exts[CHOOSE i \in 1..Len(Exts) : Exts[i].name = nm]

(* ---- the implementation's claims ----------------------------------------- *)
HasClaim(o) == C.types[o].has = 1
ClaimOf(o)  == C.types[o].ts
HasClo(g, nm) == \E i \in 1..Len(C.closure[g]) : C.closure[g][i].name = nm
CloOf(g, nm)  == C.closure[g][CHOOSE i \in 1..Len(C.closure[g]) : C.closure[g][i].name = nm].ts

(* ---- expression evaluation ------------------------------------------------ *)
(* S = [ev, ci, ch, used, err]; ev collects <<occurrence, tag, cell read>>     *)
S0(ch) == [ev |-> <<>>, ci |-> 1, ch |-> ch, used |-> <<>>, err |-> ""]
Emit1(e, v, c, S) == [v |-> v, s |-> [S EXCEPT !.ev = Append(@, [o |-> e, t |-> v.t, c |-> c])]]
Fail(S, k) == [v |-> NoV, s |-> [S EXCEPT !.err = k]]
Fin(e, t, S) == IF IsErr(t) THEN Fail(S, t[2]) ELSE Emit1(e, Data(t), 0, S)

RECURSIVE Eval(_, _, _), EvalList(_, _, _, _)
EvalList(args, env, S, acc) ==
  IF args = <<>> \/ S.err # "" THEN [vs |-> acc, s |-> S]
  ELSE LET r == Eval(Head(args), env, S) IN EvalList(Tail(args), env, r.s, Append(acc, r.v))

Eval(e, env, S) ==
  IF S.err # "" THEN [v |-> NoV, s |-> S] ELSE
  LET x == EX(e) IN
  CASE x.kind = "lit" -> Emit1(e, Data(<<x.t>>), 0, S)
    [] x.kind = "name" ->
        LET c == CellOf(envs, env, x.name) IN
        IF c = 0 THEN (IF IsGlobalVal(x.name) THEN Emit1(e, Data(GVal(x.name)), 0, S) ELSE Fail(S, "NameError"))
        ELSE IF cells[c].v = Unbound THEN Fail(S, "NameError")
        ELSE Emit1(e, cells[c].v, c, S)
    [] x.kind \in {"bin", "cmp"} ->
        LET a == Eval(x.args[1], env, S)
            b == Eval(x.args[2], env, a.s) IN
        IF b.s.err # "" THEN [v |-> NoV, s |-> b.s]
        ELSE Fin(e, IF x.kind = "bin" THEN BinVal(x.op, a.v.t, b.v.t) ELSE CmpVal(x.op, a.v.t, b.v.t), b.s)
    [] x.kind = "un" ->
        LET a == Eval(x.args[1], env, S) IN
        IF a.s.err # "" THEN a ELSE Fin(e, UnVal(x.op, a.v.t), a.s)
    [] x.kind \in {"list", "tuple"} ->
        LET a == EvalList(x.args, env, S, <<>>) IN
        IF a.s.err # "" THEN [v |-> NoV, s |-> a.s]
        ELSE IF \E i \in 1..Len(a.vs) : ~ElemOK(a.vs[i].t) THEN Fail(a.s, "unsup")     \* functions as elements
        ELSE Emit1(e, Data(<<x.kind>> \o [i \in 1..Len(a.vs) |-> a.vs[i].t[1]]), 0, a.s)
    [] x.kind = "sub" ->
        LET a == Eval(x.args[1], env, S) IN
        IF a.s.err # "" THEN a ELSE Fin(e, SubVal(a.v.t, x.k), a.s)
    [] x.kind = "ext" ->
        LET a == EvalList(x.args, env, S, <<>>)
            X == ExtOf(x.name) IN
        IF a.s.err # "" THEN [v |-> NoV, s |-> a.s]
        ELSE IF Len(X.res) = 1 THEN Emit1(e, Data(X.res[1]), 0, a.s)
        ELSE LET c == a.s.ch[a.s.ci] IN
             Emit1(e, Data(X.res[c]), 0, [a.s EXCEPT !.ci = @ + 1, !.used = Append(@, c)])

ChoiceSets(ar) ==
  IF Len(ar) = 0 THEN {<<>>}
  ELSE {c \in [1..Len(ar) -> 1..MaxAr] : \A i \in 1..Len(ar) : c[i] <= ar[i]}
Strip(evs) == [i \in 1..Len(evs) |-> [o |-> evs[i].o, t |-> evs[i].t]]

(* ---- the monitor ----------------------------------------------------------- *)
(* A record describes one *primary* disagreement: the claim exists and misses   *)
(* the run-time tag, and no operand of the same statement was already           *)
(* mis-claimed (taint: a variable written by a statement that had a             *)
(* disagreement carries it on, its later reads are consequences, not causes).   *)
(* wk/wc/wnl/wrel describe the last binding of the variable involved: its kind,   *)
(* whether the binding occurrence itself carried a claim, whether it went through *)
(* a nonlocal declaration, and whether it happened in the activation that now     *)
(* observes it ("same") or in another one ("other").  unk: some operand of the    *)
(* occurrence has no claim / the claim Any - a claim on the occurrence itself can *)
(* then only be left over from an earlier iteration of the fixed point.           *)
(* clo: the occurrence reads a captured variable and the (final) CLOSURE_TYPES of *)
(* its function do cover the tag - the body was annotated before they were        *)
(* complete.  cshadow (closure clause): the calling function declares the         *)
(* captured name nonlocal, or has a local of the same name - the state it passes  *)
(* on as closure types speaks about its own names.                                *)
(* chain (binding occurrences): the target is not the first one of a chained       *)
(* assignment t1 = t2 = .. = e: "after-unpack" when a tuple target precedes it in  *)
(* the statement, "after-name" otherwise.  ponly: the variable is a parameter that *)
(* no statement rebinds (its only binding is the call); phide: that parameter has  *)
(* the name of a variable of an enclosing function.                                *)
HasAny(ts)  == \E i \in 1..Len(ts) : \E j \in 1..Len(ts[i]) : ts[i][j] = "any"
Unknown(a)  == ~HasClaim(a) \/ HasAny(ClaimOf(a))
UnkArgs(o)  == EX(o).kind \in {"bin", "cmp", "un", "sub", "tuple"}      \* (a list display / external call is typed whatever its operands)
               /\ \E j \in 1..Len(EX(o).args) : Unknown(EX(o).args[j])
UnkSrc(e)   == e # 0 /\ (Unknown(e) \/ UnkArgs(e))       \* the value bound has no (trustworthy) claim
BadRec(clause, o, t, nm, c, act) ==
  LET w == IF c = 0 THEN W("na", TRUE, act, 0, FALSE) ELSE cells[c].w IN
  [clause |-> clause, o |-> o, t |-> t, name |-> nm, wk |-> w.kind, wc |-> w.claimed, wnode |-> w.node, wnl |-> w.nl,
   wrel |-> IF c = 0 THEN "na" ELSE IF w.act = act THEN "same" ELSE "other",
   unk |-> clause = "types" /\ UnkArgs(o),
   clo |-> clause = "types" /\ c # 0 /\ EX(o).kind = "name" /\ nm \notin LocalsOf(EX(o).fn)
           /\ HasClo(EX(o).fn, nm) /\ Covers(CloOf(EX(o).fn, nm), t),
   cshadow |-> clause = "closure" /\ c # 0 /\
               (IF envs[act].cellOf[nm] = 0 THEN nm \in Range(FN(envs[act].fn).nonlocals)
                ELSE envs[act].cellOf[nm] # c),
   chain |-> "",
   ponly |-> c # 0 /\ w.kind = "param" /\ ~Rebound(envs[w.act].fn, nm),
   phide |-> c # 0 /\ w.kind = "param" /\ Owner(FN(envs[w.act].fn).parent, nm) # 0]

RECURSIVE Judge(_, _, _, _, _)
Judge(evs, i, b, dirty, act) ==
  IF i > Len(evs) THEN [bad |-> b, dirty |-> dirty]
  ELSE LET x == evs[i]
           viol == HasClaim(x.o) /\ ~Covers(ClaimOf(x.o), x.t)
           tainted == x.c # 0 /\ cells[x.c].taint IN
       IF viol /\ ~dirty /\ ~tainted
       THEN Judge(evs, i + 1, b \cup {BadRec("types", x.o, x.t, EX(x.o).name, x.c, act)}, TRUE, act)
       ELSE Judge(evs, i + 1, b, dirty \/ viol \/ tainted, act)

(* closure types must cover the captured variables at every call *)
ClosureViol(g, fenv) ==
  {m \in FreeOf(g) :
     LET c == CellOf(envs, fenv, m) IN
     /\ c # 0 /\ cells[c].v # Unbound /\ ~cells[c].taint
     /\ HasClo(g, m) /\ ~Covers(CloOf(g, m), cells[c].v.t)}
ClosureBad(g, fenv, o, act) ==
  {BadRec("closure", o, cells[CellOf(envs, fenv, nm)].v.t, nm, CellOf(envs, fenv, nm), act) : nm \in ClosureViol(g, fenv)}
(* what the callee then reads from such a variable is a consequence *)
TaintViol(g, fenv) ==
  LET cs == {CellOf(envs, fenv, nm) : nm \in ClosureViol(g, fenv)} IN
  [c \in 1..Len(cells) |-> IF c \in cs THEN [cells[c] EXCEPT !.taint = TRUE] ELSE cells[c]]

(* bindings: ws = sequence of [o, name, v, k, ch]; name = "" is an event without a cell (the tuple target as a *)
(* whole); k = kind of the binding (param/assign/unpack/aug/for), ch = position in a chained assignment         *)
Wr(o, nm, v, k, ch) == [o |-> o, name |-> nm, v |-> v, k |-> k, ch |-> ch]
RECURSIVE DoWrites(_, _, _, _, _, _, _, _, _)
DoWrites(cl, es, env, ws, dirty, n, b, evs, src) ==
  IF ws = <<>> THEN [cells |-> cl, bad |-> b, ev |-> evs]
  ELSE LET w == Head(ws)
           viol == HasClaim(w.o) /\ ~Covers(ClaimOf(w.o), w.v.t)
           b1 == IF viol /\ ~dirty
                 THEN b \cup {[clause |-> "types", o |-> w.o, t |-> w.v.t, name |-> w.name, wk |-> w.k, wc |-> TRUE,
                               wnode |-> n, wnl |-> FALSE, wrel |-> "store", unk |-> UnkSrc(src),
                               clo |-> FALSE, cshadow |-> FALSE, chain |-> w.ch, ponly |-> FALSE, phide |-> FALSE]}
                 ELSE b
           e1 == Append(evs, [o |-> w.o, t |-> w.v.t]) IN
       IF w.name = "" THEN DoWrites(cl, es, env, Tail(ws), dirty \/ viol, n, b1, e1, src)
       ELSE LET c == CellOf(es, env, w.name)
                cell == [v |-> w.v, w |-> W(w.k, HasClaim(w.o) /\ ~UnkSrc(src), env, n, es[env].cellOf[w.name] = 0),
                         taint |-> dirty \/ viol] IN
            DoWrites([cl EXCEPT ![c] = cell], es, env, Tail(ws), dirty, n, b1, e1, src)

(* the bindings one assignment target performs for value v *)
Targets(tgt, v, ch) ==
  LET x == EX(tgt) IN
  IF x.kind = "store" THEN [err |-> "", ws |-> <<Wr(tgt, x.name, v, "assign", ch)>>]
  ELSE LET k == IterKind(v.t) IN
       IF k # "ok" THEN [err |-> k, ws |-> <<>>]
       ELSE IF Len(v.t) - 1 # Len(x.args) THEN [err |-> "ValueError", ws |-> <<>>]
       ELSE [err |-> "", ws |-> <<Wr(tgt, "", v, "unpack", ch)>> \o
                    [i \in 1..Len(x.args) |-> Wr(x.args[i], EX(x.args[i]).name, Data(Elems(v.t)[i]), "unpack", ch)]]

(* t1 = t2 = .. = e: every target is bound to the same value, from left to right (language reference 7.2); *)
(* an exception in one target ends the statement                                                           *)
ChainCtx(tgts, i) ==
  IF i = 1 THEN "" ELSE IF \E j \in 1..(i - 1) : EX(tgts[j]).kind = "stuple" THEN "after-unpack" ELSE "after-name"
RECURSIVE AllTargets(_, _, _, _)
AllTargets(tgts, v, i, acc) ==
  IF i > Len(tgts) THEN [err |-> "", ws |-> acc]
  ELSE LET U == Targets(tgts[i], v, ChainCtx(tgts, i)) IN
       IF U.err # "" THEN [err |-> U.err, ws |-> <<>>] ELSE AllTargets(tgts, v, i + 1, acc \o U.ws)

(* ---- return: pop to the call frame and continue in the caller --------------- *)
RECURSIVE Ret(_, _, _, _, _)
Ret(c, v, cl, evs, b) ==
  LET f == c[Len(c)]  rest == Front(c) IN
  IF f.k # "call" THEN Ret(rest, v, cl, evs, b)
  ELSE IF rest = <<>> THEN [ctrl |-> rest, cells |-> cl, status |-> St("ret", v.t), ev |-> evs, bad |-> b]
  ELSE LET d == ND(f.node)
           cenv == rest[Len(rest)].env
           viol == HasClaim(d.e) /\ ~Covers(ClaimOf(d.e), v.t)
           b1 == IF viol THEN b \cup {BadRec("types", d.e, v.t, "", 0, cenv)} ELSE b
           e1 == Append(evs, [o |-> d.e, t |-> v.t]) IN
       CASE d.kind = "expr"   -> [ctrl |-> rest, cells |-> cl, status |-> St("run", <<>>), ev |-> e1, bad |-> b1]
         [] d.kind = "return" -> Ret(rest, v, cl, e1, b1)
         [] d.kind = "assign" ->
              LET U == AllTargets(d.tgts, v, 1, <<>>) IN
              IF U.err # "" THEN [ctrl |-> <<>>, cells |-> cl, status |-> ErrStatus(U.err), ev |-> e1, bad |-> b1]
              ELSE LET D == DoWrites(cl, envs, cenv, U.ws, viol, f.node, b1, e1, d.e) IN
                   [ctrl |-> rest, cells |-> D.cells, status |-> St("run", <<>>), ev |-> D.ev, bad |-> D.bad]

RECURSIVE PopToLoop(_)
PopToLoop(c) == IF c[Len(c)].k \in {"while", "for"} THEN c ELSE PopToLoop(Front(c))

(* ---- the event sequence ---------------------------------------------------------- *)
(* The (occurrence, tag) events of an execution are what the CPython replay must      *)
(* reproduce.  Printing them in full for every terminal state dominates the run time, *)
(* so by default only their number and a rolling hash (evn, evh) are kept and         *)
(* compared; Full = TRUE keeps the sequence itself (witnesses, diagnosis).            *)
HM == 1000003
TagIdx(s) == CASE s = "int" -> 1 [] s = "float" -> 2 [] s = "bool" -> 3 [] s = "str" -> 4 [] s = "none" -> 5
               [] s = "fn" -> 6 [] s = "list" -> 7 [] s = "tuple" -> 8 [] OTHER -> 9
RECURSIVE TCode(_, _, _)
TCode(t, i, acc) == IF i > Len(t) THEN acc ELSE TCode(t, i + 1, (acc * 11 + TagIdx(t[i])) % HM)
RECURSIVE HashEvs(_, _, _)
HashEvs(h, evs, i) ==
  IF i > Len(evs) THEN h ELSE HashEvs((h * 31 + evs[i].o * 13 + TCode(evs[i].t, 1, 0)) % HM, evs, i + 1)

(* ---- state update helpers ----------------------------------------------------- *)
Set(c, cl, es, st, evs, b, used) ==
  /\ ctrl' = c /\ cells' = cl /\ envs' = es /\ status' = st /\ bad' = b
  /\ ev' = (IF Full THEN ev \o evs ELSE ev) /\ evh' = HashEvs(evh, evs, 1) /\ evn' = evn + Len(evs)
  /\ dec' = dec \o used /\ steps' = steps + 1 /\ UNCHANGED pid
Halt(k, evs, b, used) == Set(<<>>, cells, envs, ErrStatus(k), evs, b, used)

Running     == status.k = "run" /\ steps < MaxSteps /\ Len(dec) <= MaxDec
AtNode(ks)  == Running /\ Top.i <= Len(Top.blk) /\ ND(Top.blk[Top.i]).kind \in ks
AtEnd(k)    == Running /\ Top.i > Len(Top.blk) /\ Top.k = k
IsCall(d)   == d.kind \in {"assign", "expr", "return"} /\ EX(d.e).kind = "lcall"

NewEnv(g, parent, base) ==
  LET loc == LocalsOf(g)
      ord == SelectSeq(P.names, LAMBDA nm : nm \in loc)
      idx(nm) == CHOOSE i \in 1..Len(ord) : ord[i] = nm IN
  [env |-> [fn |-> g, parent |-> parent, cellOf |-> [nm \in NameSet |-> IF nm \in loc THEN base + idx(nm) ELSE 0]],
   n |-> Len(ord)]

(* ---- actions ---------------------------------------------------------------------- *)
(* function entry of the function under analysis: the environment picks argument types *)
Enter ==
  /\ status.k = "init"
  /\ \E ch \in ChoiceSets([i \in 1..Len(FN(1).ptypes) |-> Len(FN(1).ptypes[i])]) :
       LET E == NewEnv(1, 0, 0)
           es == <<E.env>>
           cl0 == [i \in 1..E.n |-> UnboundCell]
           ws == [i \in 1..Len(FN(1).params) |->
                    Wr(FN(1).params[i], EX(FN(1).params[i]).name, Data(FN(1).ptypes[i][ch[i]]), "param", "")]
           D == DoWrites(cl0, es, 1, ws, FALSE, 0, bad, <<>>, 0) IN
       Set(<<Frame("call", FN(1).body, 0, 1)>>, D.cells, es, St("run", <<>>), D.ev, D.bad, ch)

(* x = e, a, b = e, a, b = t = e (chained), x op= e, e, return e  (e without a call of a local function) *)
ExecSimple ==
  /\ AtNode({"assign", "aug", "expr", "return"})
  /\ LET n == Top.blk[Top.i]  d == ND(n)  env == Top.env IN
     /\ ~IsCall(d)
     /\ LET oldc == IF d.kind = "aug" THEN CellOf(envs, env, EX(d.tgt).name) ELSE 0 IN
        IF d.kind = "aug" /\ (oldc = 0 \/ cells[oldc].v = Unbound) THEN Halt("NameError", <<>>, bad, <<>>)
        ELSE
        \E ch \in ChoiceSets(d.ch) :
          LET r == Eval(d.e, env, S0(ch))
              J == Judge(r.s.ev, 1, bad, FALSE, env)
              E == Strip(r.s.ev) IN
          IF r.s.err # "" THEN Halt(r.s.err, E, J.bad, r.s.used)
          ELSE CASE d.kind = "expr" -> Set(Adv(ctrl), cells, envs, status, E, J.bad, r.s.used)
                 [] d.kind = "return" ->
                      LET R == Ret(ctrl, r.v, cells, E, J.bad) IN Set(R.ctrl, R.cells, envs, R.status, R.ev, R.bad, r.s.used)
                 [] d.kind = "assign" ->
                      LET U == AllTargets(d.tgts, r.v, 1, <<>>) IN
                      IF U.err # "" THEN Halt(U.err, E, J.bad, r.s.used)
                      ELSE LET D == DoWrites(cells, envs, env, U.ws, J.dirty, n, J.bad, E, d.e) IN
                           Set(Adv(ctrl), D.cells, envs, status, D.ev, D.bad, r.s.used)
                 [] d.kind = "aug" ->
                      LET nv == AugVal(d.op, cells[oldc].v.t, r.v.t) IN
                      IF IsErr(nv) THEN Halt(nv[2], E, J.bad, r.s.used)
                      ELSE LET D == DoWrites(cells, envs, env, <<Wr(d.tgt, EX(d.tgt).name, Data(nv), "aug", "")>>,
                                             J.dirty \/ cells[oldc].taint, n, J.bad, E, 0) IN
                           Set(Adv(ctrl), D.cells, envs, status, D.ev, D.bad, r.s.used)

(* g(e..), x = g(e..), return g(e..)  with g a local function: push an activation *)
ExecCall ==
  /\ AtNode({"assign", "expr", "return"})
  /\ LET n == Top.blk[Top.i]  d == ND(n)  env == Top.env IN
     /\ IsCall(d)
     /\ \E ch \in ChoiceSets(d.ch) :
          LET a == EvalList(EX(d.e).args, env, S0(ch), <<>>)      \* args[1] is the occurrence of the function name
              J == Judge(a.s.ev, 1, bad, FALSE, env)
              E == Strip(a.s.ev) IN
          IF a.s.err # "" THEN Halt(a.s.err, E, J.bad, a.s.used)
          ELSE LET fv == a.vs[1] IN
            IF fv.t # <<"fn">> THEN Halt("TypeError", E, J.bad, a.s.used)
            ELSE IF Len(a.vs) - 1 # Len(FN(fv.f).params) THEN Halt("TypeError", E, J.bad, a.s.used)
            ELSE IF Depth >= MaxDepth THEN Set(<<>>, cells, envs, St("steps", <<"depth">>), E, J.bad, a.s.used)
            ELSE LET g == fv.f
                     N == NewEnv(g, fv.env, Len(cells))
                     ne == Len(envs) + 1
                     es == Append(envs, N.env)
                     cl0 == TaintViol(g, fv.env) \o [i \in 1..N.n |-> UnboundCell]
                     b1 == J.bad \cup ClosureBad(g, fv.env, d.e, env)
                     ws == [i \in 1..Len(FN(g).params) |->
                              Wr(FN(g).params[i], EX(FN(g).params[i]).name, a.vs[i + 1], "param", "")]
                     D == DoWrites(cl0, es, ne, ws, J.dirty, n, b1, E, 0) IN
                 Set(Append(Adv(ctrl), Frame("call", FN(g).body, n, ne)), D.cells, es, status, D.ev, D.bad, a.s.used)

ExecIf ==
  /\ AtNode({"if"})
  /\ LET n == Top.blk[Top.i]  d == ND(n)  env == Top.env
         r == Eval(d.e, env, S0(<<>>))
         J == Judge(r.s.ev, 1, bad, FALSE, env) IN
     IF r.s.err # "" THEN Halt(r.s.err, Strip(r.s.ev), J.bad, <<>>)
     ELSE \E dcn \in {0, 1} :
            LET blk == IF dcn = 1 THEN d.body ELSE d.orelse
                c1 == Adv(ctrl) IN
            Set(IF blk = <<>> THEN c1 ELSE Append(c1, Frame("blk", blk, n, env)), cells, envs, status,
                Strip(r.s.ev), J.bad, <<dcn>>)

ExecWhile ==
  /\ AtNode({"while"})
  /\ LET n == Top.blk[Top.i]  d == ND(n)  env == Top.env
         r == Eval(d.e, env, S0(<<>>))
         J == Judge(r.s.ev, 1, bad, FALSE, env) IN
     IF r.s.err # "" THEN Halt(r.s.err, Strip(r.s.ev), J.bad, <<>>)
     ELSE \E dcn \in {0, 1} :
            LET c1 == Adv(ctrl) IN
            Set(IF dcn = 1 THEN Append(c1, [Frame("while", d.body, n, env) EXCEPT !.trips = MaxTrip - 1]) ELSE c1,
                cells, envs, status, Strip(r.s.ev), J.bad, <<dcn>>)

(* end of a while body: the test is evaluated again *)
NextWhile ==
  /\ AtEnd("while")
  /\ LET f == Top  d == ND(f.node)
         r == Eval(d.e, f.env, S0(<<>>))
         J == Judge(r.s.ev, 1, bad, FALSE, f.env) IN
     IF r.s.err # "" THEN Halt(r.s.err, Strip(r.s.ev), J.bad, <<>>)
     ELSE \E dcn \in (IF f.trips > 0 THEN {0, 1} ELSE {0}) :
            Set(IF dcn = 1 THEN Append(Front(ctrl), [f EXCEPT !.i = 1, !.trips = @ - 1]) ELSE Front(ctrl),
                cells, envs, status, Strip(r.s.ev), J.bad, <<dcn>>)

(* for header: evaluate the iterable, bind the first element *)
ExecFor ==
  /\ AtNode({"for"})
  /\ LET n == Top.blk[Top.i]  d == ND(n)  env == Top.env IN
     \E ch \in ChoiceSets(d.ch) :
       LET r == Eval(d.e, env, S0(ch))
           J == Judge(r.s.ev, 1, bad, FALSE, env)
           E == Strip(r.s.ev) IN
       IF r.s.err # "" THEN Halt(r.s.err, E, J.bad, r.s.used)
       ELSE IF IterKind(r.v.t) # "ok" THEN Halt(IterKind(r.v.t), E, J.bad, r.s.used)
       ELSE LET items == Elems(r.v.t) IN
            IF items = <<>> THEN Set(Adv(ctrl), cells, envs, status, E, J.bad, r.s.used)
            ELSE LET D == DoWrites(cells, envs, env, <<Wr(d.tgt, EX(d.tgt).name, Data(items[1]), "for", "")>>,
                                   J.dirty, n, J.bad, E, 0) IN
                 Set(Append(Adv(ctrl), [Frame("for", d.body, n, env) EXCEPT !.items = Tail(items), !.dirty = J.dirty]),
                     D.cells, envs, status, D.ev, D.bad, r.s.used)

NextFor ==
  /\ AtEnd("for")
  /\ LET f == Top  d == ND(f.node) IN
     IF f.items = <<>> THEN Set(Front(ctrl), cells, envs, status, <<>>, bad, <<>>)
     ELSE LET D == DoWrites(cells, envs, f.env, <<Wr(d.tgt, EX(d.tgt).name, Data(Head(f.items)), "for", "")>>,
                            f.dirty, f.node, bad, <<>>, 0) IN
          Set(Append(Front(ctrl), [f EXCEPT !.i = 1, !.items = Tail(@)]), D.cells, envs, status, D.ev, D.bad, <<>>)

ExecDef ==
  /\ AtNode({"def"})
  /\ LET n == Top.blk[Top.i]  d == ND(n)  env == Top.env
         c == CellOf(envs, env, FN(d.f).name)
         cell == [v |-> [t |-> <<"fn">>, f |-> d.f, env |-> env], w |-> W("def", TRUE, env, n, FALSE), taint |-> FALSE] IN
     Set(Adv(ctrl), [cells EXCEPT ![c] = cell], envs, status, <<>>, bad, <<>>)

ExecJump ==
  /\ AtNode({"pass", "break", "continue"})
  /\ LET d == ND(Top.blk[Top.i]) IN
     CASE d.kind = "pass"  -> Set(Adv(ctrl), cells, envs, status, <<>>, bad, <<>>)
       [] d.kind = "break" -> Set(Front(PopToLoop(ctrl)), cells, envs, status, <<>>, bad, <<>>)
       [] d.kind = "continue" ->
            LET c == PopToLoop(ctrl) IN
            Set([c EXCEPT ![Len(c)].i = Len(c[Len(c)].blk) + 1], cells, envs, status, <<>>, bad, <<>>)

EndBlock == AtEnd("blk") /\ Set(Front(ctrl), cells, envs, status, <<>>, bad, <<>>)

(* falling off the end of a function body returns None *)
EndCall ==
  /\ AtEnd("call")
  /\ LET R == Ret(ctrl, NoneV, cells, <<>>, bad) IN Set(R.ctrl, R.cells, envs, R.status, R.ev, R.bad, <<>>)

(* bounds of the exploration: the execution is cut (and counted), never judged further *)
TooLong ==
  /\ status.k = "run" /\ (steps >= MaxSteps \/ Len(dec) > MaxDec)
  /\ status' = St("steps", <<"steps">>) /\ UNCHANGED <<pid, ctrl, envs, cells, dec, ev, evh, evn, steps, bad>>

Init ==
  /\ pid \in 1..Len(Progs)
  /\ ctrl = <<>> /\ envs = <<>> /\ cells = <<>> /\ dec = <<>> /\ ev = <<>> /\ evh = 0 /\ evn = 0
  /\ status = St("init", <<>>) /\ steps = 0 /\ bad = {}

Next == \/ Enter \/ ExecSimple \/ ExecCall \/ ExecIf \/ ExecWhile \/ NextWhile \/ ExecFor \/ NextFor
        \/ ExecDef \/ ExecJump \/ EndBlock \/ EndCall \/ TooLong
Spec == Init /\ [][Next]_vars

(* ---- reporting -------------------------------------------------------------------- *)
Terminal == status.k \notin {"init", "run"}
Emit == Terminal =>
  PrintT(ToJson([pid |-> pid, dec |-> dec, ev |-> ev, evh |-> evh, evn |-> evn, out |-> status, bad |-> bad]))
=============================================================================
