----------------------------- MODULE MiniPyGen -----------------------------
(***************************************************************************)
(* The program classes of the MiniPy family as a grammar: a *derivation    *)
(* state machine*.  The state is a program skeleton with holes; an action  *)
(* fills the LEFTMOST hole with a production, so every skeleton has        *)
(* exactly one derivation and TLC's state de-duplication counts programs,  *)
(* not derivation orders.  A state without holes is a complete skeleton    *)
(* and is printed (reporting invariant Emit) as a token sequence that      *)
(* vf/skeleton.py decorates with variables and tracer calls.               *)
(*                                                                         *)
(* Class predicates are encoded in the productions:                        *)
(*   - break/continue only inside a loop body, and never leaving a finally *)
(*     block (PEP 765 / documented limit of C01): a loop nested in a       *)
(*     finally block may use them;                                         *)
(*   - return nowhere inside a finally block, however deeply nested (an    *)
(*     explicit raise there is ordinary Python and in the class);          *)
(*   - LoopElse = TRUE adds for/while-else (class C05 only);               *)
(*   - nothing follows a jump in its block (dead code is legal Python but  *)
(*     adds no behaviour).                                                 *)
(***************************************************************************)
EXTENDS Naturals, Sequences, FiniteSets, TLC, Json
CONSTANTS MaxStmts,   \* statements per skeleton
          MaxD,       \* nesting depth
          MaxLen,     \* statements per block
          LoopElse,   \* BOOLEAN
          Funcs,      \* BOOLEAN: nested def + call productions
          Allowed     \* the productions of this family (a subset of Productions): focused enumerations go deeper
VARIABLES toks, stmts
vars == <<toks, stmts>>
Hole(d, lp, fin, rem, fn) == [t |-> "?", d |-> d, lp |-> lp, fin |-> fin, rem |-> rem, fn |-> fn]
Tk(t) == [t |-> t, d |-> 0, lp |-> FALSE, fin |-> FALSE, rem |-> 0, fn |-> FALSE]
Init == toks = <<Hole(0, FALSE, FALSE, MaxLen, FALSE)>> /\ stmts = 0
Holes == {i \in 1..Len(toks) : toks[i].t = "?"}
First == CHOOSE i \in Holes : \A j \in Holes : i <= j
Repl(i, s) == SubSeq(toks, 1, i-1) \o s \o SubSeq(toks, i+1, Len(toks))
\* after a statement the block either ends or continues with another hole
Cont(h) == IF h.rem > 1 THEN {<<>>, <<Hole(h.d, h.lp, h.fin, h.rem - 1, h.fn)>>} ELSE {<<>>}
Sub(h, lp, fin) == Hole(h.d + 1, lp, fin, MaxLen, h.fn)
Productions == {"s", "if", "ifelse", "while", "for", "with", "tryf", "trye", "tryef", "tryel", "tryelf", "whileelse", "forelse", "def",
                "break", "continue", "return", "raise"}
Named(name, seq) == IF name \in Allowed THEN {seq} ELSE {}
Compound(h) ==
  IF h.d >= MaxD THEN {} ELSE
  Named("if", <<Tk("if"), Sub(h, h.lp, h.fin), Tk("end")>>)
  \cup Named("ifelse", <<Tk("if"), Sub(h, h.lp, h.fin), Tk("else"), Sub(h, h.lp, h.fin), Tk("end")>>)
  \cup Named("while", <<Tk("while"), Sub(h, TRUE, h.fin), Tk("end")>>)
  \cup Named("for", <<Tk("for"), Sub(h, TRUE, h.fin), Tk("end")>>)
  \cup Named("with", <<Tk("with"), Sub(h, h.lp, h.fin), Tk("end")>>)
  \cup Named("tryf", <<Tk("try"), Sub(h, h.lp, h.fin), Tk("finally"), Sub(h, FALSE, TRUE), Tk("end")>>)
  \cup Named("trye", <<Tk("try"), Sub(h, h.lp, h.fin), Tk("except"), Sub(h, h.lp, h.fin), Tk("end")>>)
  \cup Named("tryef", <<Tk("try"), Sub(h, h.lp, h.fin), Tk("except"), Sub(h, h.lp, h.fin), Tk("finally"), Sub(h, FALSE, TRUE), Tk("end")>>)
  \* try / except / else ( / finally): the else clause runs when the body completes normally
  \cup Named("tryel", <<Tk("try"), Sub(h, h.lp, h.fin), Tk("except"), Sub(h, h.lp, h.fin), Tk("else"), Sub(h, h.lp, h.fin), Tk("end")>>)
  \cup Named("tryelf", <<Tk("try"), Sub(h, h.lp, h.fin), Tk("except"), Sub(h, h.lp, h.fin), Tk("else"), Sub(h, h.lp, h.fin),
                        Tk("finally"), Sub(h, FALSE, TRUE), Tk("end")>>)
  \cup (IF LoopElse THEN
        Named("whileelse", <<Tk("while"), Sub(h, TRUE, h.fin), Tk("else"), Sub(h, h.lp, h.fin), Tk("end")>>)
        \cup Named("forelse", <<Tk("for"), Sub(h, TRUE, h.fin), Tk("else"), Sub(h, h.lp, h.fin), Tk("end")>>) ELSE {})
  \cup (IF Funcs /\ ~h.fn /\ h.d <= 1 THEN
        Named("def", <<Tk("def"), Hole(h.d + 1, FALSE, FALSE, MaxLen, TRUE), Tk("end"), Tk(IF h.fin THEN "callnr" ELSE "call")>>) ELSE {})
\* lp is reset on entering a finally block, so inside one it means "a loop that lies inside this finally block":
\* break/continue then stay inside the finally block (legal, in the class); return would leave it.
Jumps(h) == (IF h.lp THEN Named("break", <<Tk("break")>>) \cup Named("continue", <<Tk("continue")>>) ELSE {})
            \cup (IF ~h.fin THEN Named("return", <<Tk("return")>>) ELSE {})
            \cup Named("raise", <<Tk("raise")>>)
Next ==
  /\ Holes # {} /\ stmts < MaxStmts
  /\ LET i == First  h == toks[i] IN
     \/ "s" \in Allowed /\ \E c \in Cont(h) : toks' = Repl(i, <<Tk("s")>> \o c)
     \/ \E p \in Compound(h), c \in Cont(h) : toks' = Repl(i, p \o c)
     \/ \E j \in Jumps(h) : toks' = Repl(i, j)
  /\ stmts' = stmts + 1
Spec == Init /\ [][Next]_vars
Complete == Holes = {}
Emit == Complete => PrintT(ToJson([t \in 1..Len(toks) |-> toks[t].t]))
=============================================================================
