#!/bin/sh
# tools/seed_matrix.sh "<seed> <check>" ... : run each stored seeded change against a check, print one verdict line each
cd "$(dirname "$0")/.."
for pair in "$@"; do set -- $pair
  r=$(tools/mutant_run.sh seeded/$1/patch.diff $2 2>&1 | grep -E "MUTANT-RESULT|signature=" | head -4 | tr '\n' ' ' | cut -c1-400)
  echo "SEEDRUN $1 vs $2: $r"
done
