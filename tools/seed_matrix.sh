#!/bin/sh
# tools/seed_matrix.sh "<seed> <check>" ... : run each stored seeded change against a check, print one verdict line each
cd "$(dirname "$0")/.."
for pair in "$@"; do set -- $pair
  out=$(tools/mutant_run.sh seeded/$1/patch.diff $2 2>&1)
  rc=$(echo "$out" | grep -o "MUTANT-RESULT.*rc=[0-9]*" | grep -o "rc=[0-9]*")
  sigs=$(echo "$out" | grep "^  signature=" | cut -c1-160 | head -3 | tr '\n' '|')
  echo "SEEDRUN $1 vs $2: $rc $sigs"
done
