#!/bin/sh
# tools/seed_sweep.sh "<ids>" "<seeds>" [tier]  - runs the checks under several VERIF_SEED values; prints one line per run.
ids=${1:-"C01 C02 C03 C04 C05 C06 C07 C08 C11 C17"}; seeds=${2:-"1 2 3"}; tier=${3:-quick}
cd "$(dirname "$0")/.." && mkdir -p build
for s in $seeds; do for i in $ids; do
  d=$(mktemp -d build/sweep.XXXXXX)
  VERIF_SEED=$s VERIF_EVIDENCE_DIR=$PWD/$d ./check $i --tier $tier > $d/out.txt 2>&1; rc=$?
  echo "SWEEP id=$i seed=$s rc=$rc $(tail -1 $d/out.txt)"
  grep -E "^VIOLATION|signature=|MACHINERY" $d/out.txt | head -6
  [ $rc -eq 0 ] && rm -rf $d
done; done
