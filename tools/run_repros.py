#!/venv/bin/python
"""tools/run_repros.py [ID ...]  - runs the stand-alone repro of every open known finding against /repo
(each repro is written to a scratch file and executed as a script; it must FAIL on a tree that has the defect)."""
import glob, json, os, subprocess, sys, tempfile
ids = sys.argv[1:] or sorted(os.path.basename(p)[:-5] for p in glob.glob('/verif/known_findings/*.json'))
rc = 0
for i in ids:
    for k in json.load(open('/verif/known_findings/%s.json' % i)).get('open', []):
        with tempfile.TemporaryDirectory(dir='/verif/build') as d:
            path = os.path.join(d, 'repro.py')
            open(path, 'w').write(k['repro'])
            env = dict(os.environ, PYTHONPATH=os.environ.get('VERIF_REPO', '/repo'), PYTHONDONTWRITEBYTECODE='1')
            p = subprocess.run(['/venv/bin/python', path], cwd=d, env=env, stdout=subprocess.PIPE, stderr=subprocess.STDOUT, text=True)
        last = (p.stdout.strip().splitlines() or [''])[-1]
        status = 'defect reproduced' if (p.returncode != 0 or 'DEFECT REPRODUCED' in p.stdout) else 'REPRO PASSES (defect absent?)'
        if p.returncode == 0:
            rc = 1
        print('%s %s: %s :: %s' % (i, k['signature'], status, last[:150]))
sys.exit(rc)
