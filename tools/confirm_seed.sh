#!/bin/sh
# tools/confirm_seed.sh <seed-dir> : confirm a seeded change (patch.diff, demo.py, meta.json) on a scratch copy of /repo:
# patch applies, baseline suite still passes, demo fails with the patch and passes without. On success copy to /verif/seeded/.
src=$(readlink -f "$1"); name=$(basename "$src")
d=$(mktemp -d /tmp/vfseed.XXXXXX); trap 'rm -rf "$d"' EXIT
rsync -a --exclude .git --exclude '*.egg-info' --exclude __pycache__ /repo/ "$d/repo/"
mkdir -p "$d/demo"; cp "$src/demo.py" "$d/demo/"
( cd "$d/demo" && PYTHONPATH="$d/repo" PYTHONDONTWRITEBYTECODE=1 timeout 300 /venv/bin/python demo.py >"$d/clean.out" 2>&1 ); rc_clean=$?
( cd "$d/repo" && patch -p1 -s < "$src/patch.diff" ) || { echo "SEED $name: PATCH DOES NOT APPLY"; exit 1; }
rm -rf "$d/demo"; mkdir -p "$d/demo"; cp "$src/demo.py" "$d/demo/"
( cd "$d/demo" && PYTHONPATH="$d/repo" PYTHONDONTWRITEBYTECODE=1 timeout 300 /venv/bin/python demo.py >"$d/patched.out" 2>&1 ); rc_patched=$?
base=$(/verif/tools/baseline_check.py "$d/repo" | head -1)
echo "SEED $name: demo clean rc=$rc_clean patched rc=$rc_patched; $base"
if [ $rc_clean -eq 0 ] && [ $rc_patched -ne 0 ] && echo "$base" | grep -q "319/319"; then
  mkdir -p /verif/seeded/$name; cp "$src/patch.diff" "$src/demo.py" /verif/seeded/$name/
  /venv/bin/python - "$src/meta.json" /verif/seeded/$name/meta.json "$base" <<'PY'
import json, sys
m = json.load(open(sys.argv[1]))
m['confirmed_by_lead'] = dict(patch_applies_to_repo_head=True, demo_exit_clean=0, demo_fails_with_patch=True, baseline=sys.argv[3],
                              commands=['tools/confirm_seed.sh (scratch rsync copy of /repo; patch -p1; PYTHONPATH=<copy> python demo.py; tools/baseline_check.py <copy>)'])
json.dump(m, open(sys.argv[2], 'w'), indent=1)
PY
  echo "SEED $name: CONFIRMED -> /verif/seeded/$name"
else
  echo "SEED $name: NOT CONFIRMED"; tail -3 "$d/clean.out"; tail -3 "$d/patched.out"
fi
