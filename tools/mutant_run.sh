#!/bin/sh
# tools/mutant_run.sh <patch-file> <ID> [--tier quick] [--tests]
# Applies a patch to a scratch copy of /repo (outside /repo and /verif), runs ./check <ID> against it with
# VERIF_REPO, prints the exit code and removes the copy. Evidence goes to a scratch directory, not /verif/evidence.
# --tests additionally runs the repository's own test suite inside the scratch copy (the mutant must pass it).
patch=$(readlink -f "$1"); id=$2; shift 2
tests=0; args=""
for a in "$@"; do if [ "$a" = "--tests" ]; then tests=1; else args="$args $a"; fi; done
d=$(mktemp -d /tmp/vfmut.XXXXXX)
trap 'rm -rf "$d"' EXIT
rsync -a --exclude .git --exclude '*.egg-info' --exclude __pycache__ /repo/ "$d/repo/"
( cd "$d/repo" && patch -p1 -s < "$patch" ) || { echo "PATCH FAILED"; exit 3; }
if [ $tests -eq 1 ]; then
  /verif/tools/baseline_check.py "$d/repo"
fi
mkdir -p "$d/ev"
cd "$(dirname "$0")/.." && VERIF_REPO="$d/repo" VERIF_EVIDENCE_DIR="$d/ev" ./check "$id" $args > "$d/out.txt" 2>&1
rc=$?
grep -E 'VIOLATION|KNOWN-FINDING|MACHINERY|signature=' "$d/out.txt" | head -12
tail -1 "$d/out.txt"
echo "MUTANT-RESULT id=$id patch=$(basename "$patch") rc=$rc"
exit 0
