#!/venv/bin/python
"""tools/baseline_check.py [repo_dir]  - runs the repository's pinned test suite (guard off) in repo_dir
(default /repo) and reports whether all 319 baseline-passing tests still pass. Exit 0 iff they do."""
import json, os, subprocess, sys, tempfile
import xml.etree.ElementTree as ET
repo = os.path.abspath(sys.argv[1]) if len(sys.argv) > 1 else '/repo'
base = json.load(open('/root/.vp/BASELINE.json'))
want = set(base['stable_pass'])
fd, xml = tempfile.mkstemp(suffix='.xml', dir=os.environ.get('TMPDIR', '/tmp')); os.close(fd)
env = dict(os.environ); env.pop('DIASTATIC_MALT_VERIF', None); env['PYTHONDONTWRITEBYTECODE'] = '1'
subprocess.run(['/venv/bin/python', '-m', 'pytest', '-q', '-p', 'no:cacheprovider', '--timeout=900',
                '--continue-on-collection-errors', '--junitxml=' + xml], cwd=repo, env=env,
               stdout=subprocess.DEVNULL, stderr=subprocess.DEVNULL)
passed = set()
for tc in ET.parse(xml).getroot().iter('testcase'):
    if not any(ch.tag in ('failure', 'error', 'skipped') for ch in tc):
        passed.add('%s::%s' % (tc.get('classname'), tc.get('name')))
os.unlink(xml)
missing = sorted(want - passed)
print('baseline tests passing: %d/%d' % (len(want & passed), len(want)))
for m in missing[:20]: print('  NOT PASSING:', m)
sys.exit(1 if missing else 0)
